use vstd::prelude::*;
verus! {

pub struct GrammarError { pub details: String, pub kind: GrammarErrorType, pub pdu: Option<String> }
pub enum GrammarErrorType { UnpackingError, LinkerError, PerVisibleConstraintError, NotYetInplemented }

impl GrammarError {
    #[verifier::external_body]
    pub fn new(data_details: &str, kind: GrammarErrorType) -> (r: GrammarError) {
        GrammarError { details: data_details.into(), kind, pdu: None }
    }
}

#[derive(Clone, Copy, PartialEq)]
pub enum IntegerType { Int8, Uint8, Int16, Uint16, Int32, Uint32, Int64, Uint64, Unbounded }

#[verifier::external_body]
pub struct ASN1Type { _p: u8 }

pub enum ASN1Value {
    All,
    Null,
    Boolean(bool),
    Choice { type_name: Option<String>, variant_name: String, inner_value: Box<ASN1Value> },
    SequenceOrSet(Vec<(Option<String>, Box<ASN1Value>)>),
    Integer(i128),
    Real(f64),
    String(String),
    BitString(Vec<bool>),
    LinkedIntValue { integer_type: IntegerType, value: i128 },
}

pub enum SubtypeElements {
    SingleValue { value: ASN1Value, extensible: bool },
    ContainedSubtype { subtype: ASN1Type, extensible: bool },
    ValueRange { min: Option<ASN1Value>, max: Option<ASN1Value>, extensible: bool },
    PermittedAlphabet(Box<ElementOrSetOperation>),
    SizeConstraint(Box<ElementOrSetOperation>),
}
pub enum SetOperator { Intersection, Union, Except }
pub struct SetOperation { pub base: SubtypeElements, pub operator: SetOperator, pub operant: Box<ElementOrSetOperation> }
pub enum ElementOrSetOperation { Element(SubtypeElements), SetOperation(SetOperation) }
pub struct ElementSetSpecs { pub set: ElementOrSetOperation, pub extensible: bool }
pub enum Constraint { Subtype(ElementSetSpecs), Other }

pub assume_specification[ <i128 as core::convert::From<u8>>::from ](a: u8) -> (r: i128) ensures r == a as i128;
pub assume_specification[ <i128 as core::convert::From<u16>>::from ](a: u16) -> (r: i128) ensures r == a as i128;
pub assume_specification[ <i128 as core::convert::From<u32>>::from ](a: u32) -> (r: i128) ensures r == a as i128;
pub assume_specification[ <i128 as core::convert::From<u64>>::from ](a: u64) -> (r: i128) ensures r == a as i128;

pub open spec fn fits(t: IntegerType, lo: int, hi: int) -> bool {
    match t {
        IntegerType::Uint8 => 0 <= lo && hi <= 255,
        IntegerType::Int8 => -128 <= lo && hi <= 127,
        IntegerType::Uint16 => 0 <= lo && hi <= 65535,
        IntegerType::Int16 => -32768 <= lo && hi <= 32767,
        IntegerType::Uint32 => 0 <= lo && hi <= 4294967295,
        IntegerType::Int32 => -2147483648 <= lo && hi <= 2147483647,
        IntegerType::Uint64 => 0 <= lo && hi <= 18446744073709551615,
        IntegerType::Int64 => -9223372036854775808 <= lo && hi <= 9223372036854775807,
        IntegerType::Unbounded => true,
    }
}

impl Constraint {
    pub open spec fn spec_value_range(&self) -> Option<(Option<ASN1Value>, Option<ASN1Value>, bool)> {
        match self {
            Constraint::Subtype(ElementSetSpecs { set: ElementOrSetOperation::Element(SubtypeElements::ValueRange { min, max, extensible }), .. }) => Some((*min, *max, *extensible)),
            _ => None,
        }
    }
    pub open spec fn spec_strict_value(&self) -> Option<(ASN1Value, bool)> {
        match self {
            Constraint::Subtype(ElementSetSpecs { set: ElementOrSetOperation::Element(SubtypeElements::SingleValue { value, extensible }), .. }) => Some((*value, *extensible)),
            _ => None,
        }
    }
    /// (lo, hi, extensible) when the constraint is a single integer value or an integer range with both ends finite
    pub open spec fn spec_int_bounds(&self) -> Option<(i128, i128, bool)> {
        match self.spec_value_range() {
            Some((Some(ASN1Value::Integer(lo)), Some(ASN1Value::Integer(hi)), x)) => Some((lo, hi, x)),
            Some(_) => None,
            None => match self.spec_strict_value() {
                Some((ASN1Value::Integer(v), x)) => Some((v, v, x)),
                _ => None,
            }
        }
    }
    pub fn integer_constraints(&self) -> (t: IntegerType)
        ensures
            match self.spec_int_bounds() {
                Some((lo, hi, x)) => (x ==> t == IntegerType::Unbounded) && (lo <= hi ==> fits(t, lo as int, hi as int))
                    && (t != IntegerType::Unbounded ==> !x && lo <= hi),
                None => t == IntegerType::Unbounded,
            },
    {
        let (mut min, mut max, mut is_extensible) = (i128::MAX, i128::MIN, false);
        if let Ok((cmin, cmax, extensible)) = self.unpack_as_value_range() {
            is_extensible = is_extensible || extensible;
            if let Some(ASN1Value::Integer(i)) = cmin {
                min = (*i).min(min);
            };
            if let Some(ASN1Value::Integer(i)) = cmax {
                max = (*i).max(max);
            };
        } else if let Ok((val, extensible)) = self.unpack_as_strict_value() {
            is_extensible = is_extensible || extensible;
            if let ASN1Value::Integer(i) = val {
                min = (*i).min(min);
                max = (*i).max(max);
            };
        };
        if min > max || is_extensible {
            IntegerType::Unbounded
        } else if min >= 0 {
            match max {
                r if r <= u8::MAX.into() => IntegerType::Uint8,
                r if r <= u16::MAX.into() => IntegerType::Uint16,
                r if r <= u32::MAX.into() => IntegerType::Uint32,
                r if r <= u64::MAX.into() => IntegerType::Uint64,
                _ => IntegerType::Unbounded,
            }
        } else {
            match (min, max) {
                (mi, ma) if mi >= i8::MIN.into() && ma <= i8::MAX.into() => IntegerType::Int8,
                (mi, ma) if mi >= i16::MIN.into() && ma <= i16::MAX.into() => IntegerType::Int16,
                (mi, ma) if mi >= i32::MIN.into() && ma <= i32::MAX.into() => IntegerType::Int32,
                (mi, ma) if mi >= i64::MIN.into() && ma <= i64::MAX.into() => IntegerType::Int64,
                _ => IntegerType::Unbounded,
            }
        }
    }

    pub fn unpack_as_value_range(
        &self,
    ) -> (r: Result<(&Option<ASN1Value>, &Option<ASN1Value>, bool), GrammarError>)
        ensures match self.spec_value_range() {
            Some((mi, ma, x)) => r.is_ok() && *r->Ok_0.0 == mi && *r->Ok_0.1 == ma && r->Ok_0.2 == x,
            None => r.is_err(),
        }
    {
        if let Constraint::Subtype(set) = self {
            if let ElementOrSetOperation::Element(SubtypeElements::ValueRange {
                min,
                max,
                extensible,
            }) = &set.set
            {
                return Ok((min, max, *extensible));
            }
        }
        Err(GrammarError::new(
            "",
            GrammarErrorType::UnpackingError,
        ))
    }

    pub fn unpack_as_strict_value(&self) -> (r: Result<(&ASN1Value, bool), GrammarError>)
        ensures match self.spec_strict_value() {
            Some((v, x)) => r.is_ok() && *r->Ok_0.0 == v && r->Ok_0.1 == x,
            None => r.is_err(),
        }
    {
        if let Constraint::Subtype(set) = self {
            if let ElementOrSetOperation::Element(SubtypeElements::SingleValue {
                value,
                extensible,
            }) = &set.set
            {
                return Ok((value, *extensible));
            }
        }
        Err(GrammarError::new(
            "",
            GrammarErrorType::UnpackingError,
        ))
    }
}

} // verus!
fn main() {}
