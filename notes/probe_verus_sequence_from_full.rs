use vstd::prelude::*;
verus! {
pub struct ExtensionMarker();
#[verifier::external_body] pub struct SequenceOrSetMember { _p: u8 }
#[verifier::external_body] pub struct Constraint { _p: u8 }
pub enum SequenceComponent { Member(SequenceOrSetMember), ComponentsOf(String) }
pub struct SequenceOrSet { pub components_of: Vec<String>, pub extensible: Option<usize>, pub constraints: Vec<Constraint>, pub members: Vec<SequenceOrSetMember> }

pub open spec fn members_of(s: Seq<SequenceComponent>) -> Seq<SequenceOrSetMember>
    decreases s.len()
{
    if s.len() == 0 { Seq::empty() } else {
        let init = members_of(s.drop_last());
        match s.last() { SequenceComponent::Member(m) => init.push(m), SequenceComponent::ComponentsOf(_) => init }
    }
}
pub open spec fn comps_of(s: Seq<SequenceComponent>) -> Seq<String>
    decreases s.len()
{
    if s.len() == 0 { Seq::empty() } else {
        let init = comps_of(s.drop_last());
        match s.last() { SequenceComponent::Member(_) => init, SequenceComponent::ComponentsOf(c) => init.push(c) }
    }
}
pub proof fn lemma_partition_len(s: Seq<SequenceComponent>)
    ensures members_of(s).len() + comps_of(s).len() == s.len()
    decreases s.len()
{
    if s.len() > 0 { lemma_partition_len(s.drop_last()); }
}
pub open spec fn opt_seq<T>(o: Option<Vec<T>>) -> Seq<T> { match o { Some(v) => v@, None => Seq::empty() } }

pub fn sequence_or_set_from(
        mut value: (
            (
                Vec<SequenceComponent>,
                Option<ExtensionMarker>,
                Option<Vec<SequenceComponent>>,
            ),
            Option<Vec<Constraint>>,
        ),
    ) -> (r: SequenceOrSet)
    ensures
        r.members@ == members_of(value.0.0@ + opt_seq(value.0.2)),
        r.components_of@ == comps_of(value.0.0@ + opt_seq(value.0.2)),
        r.constraints@ == opt_seq(value.1),
        r.extensible.is_some() == value.0.1.is_some(),
        // the first-addition index is the number of members contributed by the root list
        value.0.1.is_some() && comps_of(value.0.0@).len() == 0 ==> r.extensible == Some(members_of(value.0.0@).len() as usize),
{
        let ghost root0 = value.0.0@;
        let ghost add0 = opt_seq(value.0.2);
        proof { lemma_partition_len(value.0.0@); }
        let index_of_first_extension = value.0 .0.len();
        value.0 .0.append(&mut value.0 .2.unwrap_or_default());
        proof { assert(value.0.0@ == root0 + add0); }
        let ghost all = value.0.0@;
        let mut components_of = vec![];
        let mut members = vec![];
        for comp in it: value.0 .0
            invariant
                it.seq() == all,
                members@ == members_of(all.take(it.index@)),
                components_of@ == comps_of(all.take(it.index@)),
        {
            proof {
                assert(all.take(it.index@ + 1).drop_last() =~= all.take(it.index@));
                assert(all.take(it.index@ + 1).last() == comp);
            }
            match comp {
                SequenceComponent::Member(m) => members.push(m),
                SequenceComponent::ComponentsOf(c) => components_of.push(c),
            }
        }
        proof { assert(all.take(all.len() as int) =~= all); }
        proof { assert(members@ == members_of(all)); }
        SequenceOrSet {
            components_of,
            constraints: value.1.unwrap_or_default(),
            extensible: value.0 .1.map(|_u| -> (k: usize) ensures k == index_of_first_extension { index_of_first_extension }),
            members,
        }
}
}
fn main(){}
