use vstd::prelude::*;
verus! {

#[derive(Debug, Clone, Copy, PartialEq)]
pub enum IntegerType { Int8, Uint8, Int16, Uint16, Int32, Uint32, Int64, Uint64, Unbounded }

pub open spec fn rank(t: IntegerType) -> int {
    match t {
        IntegerType::Uint8 => 0, IntegerType::Int8 => 1, IntegerType::Uint16 => 2, IntegerType::Int16 => 3,
        IntegerType::Uint32 => 4, IntegerType::Int32 => 5, IntegerType::Uint64 => 6, IntegerType::Int64 => 7,
        IntegerType::Unbounded => 8,
    }
}

impl IntegerType {
    pub fn is_unbounded(&self) -> bool {
        self == &IntegerType::Unbounded
    }
    pub fn max_restrictive(self, rhs: IntegerType) -> (r: IntegerType)
        ensures rank(r) == if rank(self) <= rank(rhs) { rank(self) } else { rank(rhs) }
    {
        match (self, rhs) {
            (x, y) if x == y => x,
            (IntegerType::Uint8, _) | (_, IntegerType::Uint8) => IntegerType::Uint8,
            (IntegerType::Int8, _) | (_, IntegerType::Int8) => IntegerType::Int8,
            (IntegerType::Uint16, _) | (_, IntegerType::Uint16) => IntegerType::Uint16,
            (IntegerType::Int16, _) | (_, IntegerType::Int16) => IntegerType::Int16,
            (IntegerType::Uint32, _) | (_, IntegerType::Uint32) => IntegerType::Uint32,
            (IntegerType::Int32, _) | (_, IntegerType::Int32) => IntegerType::Int32,
            (IntegerType::Uint64, _) | (_, IntegerType::Uint64) => IntegerType::Uint64,
            (IntegerType::Int64, _) | (_, IntegerType::Int64) => IntegerType::Int64,
            _ => IntegerType::Unbounded,
        }
    }
}

pub enum ASN1Value {
    Null,
    Boolean(bool),
    Choice { type_name: Option<String>, variant_name: String, inner_value: Box<ASN1Value> },
    EnumeratedValue { enumerated: String, enumerable: String },
    LinkedNestedValue { supertypes: Vec<String>, value: Box<ASN1Value> },
    LinkedIntValue { integer_type: IntegerType, value: i128 },
    LinkedElsewhereDefinedValue { parent: Option<String>, identifier: String, can_be_const: bool },
    Integer(i128),
}

impl ASN1Value {
    pub(crate) fn is_const_type(&self) -> bool
        decreases self
    {
        match self {
            ASN1Value::Null | ASN1Value::Boolean(_) | ASN1Value::EnumeratedValue { .. } => true,
            ASN1Value::Choice { inner_value, .. } => inner_value.is_const_type(),
            ASN1Value::LinkedIntValue { integer_type, .. } => {
                integer_type != &IntegerType::Unbounded
            }
            ASN1Value::LinkedNestedValue { value, .. } => value.is_const_type(),
            ASN1Value::LinkedElsewhereDefinedValue { can_be_const, .. } => *can_be_const,
            _ => false,
        }
    }
}

pub(crate) fn octet_string_to_bit_string(bytes: &[u8]) -> Vec<bool> {
    let mut bits = vec![];
    for byte in bytes {
        is_bit_set(*byte, 128, &mut bits);
    }
    bits
}

fn is_bit_set(rem: u8, limit: u8, bits: &mut Vec<bool>)
    decreases limit
{
    bits.push(rem >= limit);
    if limit >= 2 {
        is_bit_set(rem % limit, limit / 2, bits)
    }
}

}
fn main(){}
