use vstd::prelude::*;
verus! {

#[derive(Clone, Copy, PartialEq)]
pub enum IntegerType { Int8, Uint8, Int16, Uint16, Int32, Uint32, Int64, Uint64, Unbounded }

pub assume_specification[ <i128 as core::convert::From<u8>>::from ](a: u8) -> (r: i128) ensures r == a as i128;
pub assume_specification[ <i128 as core::convert::From<u16>>::from ](a: u16) -> (r: i128) ensures r == a as i128;
pub assume_specification[ <i128 as core::convert::From<u32>>::from ](a: u32) -> (r: i128) ensures r == a as i128;
pub assume_specification[ <i128 as core::convert::From<u64>>::from ](a: u64) -> (r: i128) ensures r == a as i128;

pub open spec fn fits(t: IntegerType, lo: int, hi: int) -> bool {
    match t {
        IntegerType::Uint8 => 0 <= lo && hi <= 255,
        IntegerType::Int8 => -128 <= lo && hi <= 127,
        IntegerType::Uint16 => 0 <= lo && hi <= 65535,
        IntegerType::Int16 => -32768 <= lo && hi <= 32767,
        IntegerType::Uint32 => 0 <= lo && hi <= 4294967295,
        IntegerType::Int32 => -2147483648 <= lo && hi <= 2147483647,
        IntegerType::Uint64 => 0 <= lo && hi <= 18446744073709551615,
        IntegerType::Int64 => -9223372036854775808 <= lo && hi <= 9223372036854775807,
        IntegerType::Unbounded => true,
    }
}

/// narrowest type in the documented order
pub open spec fn spec_width(lo: int, hi: int, ext: bool) -> IntegerType {
    if ext || lo > hi { IntegerType::Unbounded }
    else if lo >= 0 {
        if hi <= 255 { IntegerType::Uint8 } else if hi <= 65535 { IntegerType::Uint16 }
        else if hi <= 4294967295 { IntegerType::Uint32 } else if hi <= 18446744073709551615 { IntegerType::Uint64 }
        else { IntegerType::Unbounded }
    } else {
        if -128 <= lo && hi <= 127 { IntegerType::Int8 } else if -32768 <= lo && hi <= 32767 { IntegerType::Int16 }
        else if -2147483648 <= lo && hi <= 2147483647 { IntegerType::Int32 }
        else if -9223372036854775808 <= lo && hi <= 9223372036854775807 { IntegerType::Int64 }
        else { IntegerType::Unbounded }
    }
}

pub open spec fn type_name(t: IntegerType) -> Seq<char> {
    match t {
        IntegerType::Uint8 => "u8"@, IntegerType::Int8 => "i8"@, IntegerType::Uint16 => "u16"@, IntegerType::Int16 => "i16"@,
        IntegerType::Uint32 => "u32"@, IntegerType::Int32 => "i32"@, IntegerType::Uint64 => "u64"@, IntegerType::Int64 => "i64"@,
        IntegerType::Unbounded => "Integer"@,
    }
}

pub struct Rasn;

impl Rasn {
    pub(crate) fn int_type_token(
        &self,
        opt_min: Option<i128>,
        opt_max: Option<i128>,
        is_extensible: bool,
    ) -> (r: &'static str)
        ensures
            match (opt_min, opt_max) {
                (Some(lo), Some(hi)) => lo <= hi ==> r@ == type_name(spec_width(lo as int, hi as int, is_extensible)),
                _ => r@ == "Integer"@,
            },
            is_extensible ==> r@ == "Integer"@,
    {
        if let (Some(min), Some(max)) = (opt_min, opt_max) {
            let as_str = if is_extensible {
                "Integer"
            } else if min >= 0 {
                match max {
                    r if r <= u8::MAX.into() => "u8",
                    r if r <= u16::MAX.into() => "u16",
                    r if r <= u32::MAX.into() => "u32",
                    r if r <= u64::MAX.into() => "u64",
                    _ => "Integer",
                }
            } else {
                match (min, max) {
                    (mi, ma) if mi >= i8::MIN.into() && ma <= i8::MAX.into() => "i8",
                    (mi, ma) if mi >= i16::MIN.into() && ma <= i16::MAX.into() => "i16",
                    (mi, ma) if mi >= i32::MIN.into() && ma <= i32::MAX.into() => "i32",
                    (mi, ma) if mi >= i64::MIN.into() && ma <= i64::MAX.into() => "i64",
                    _ => "Integer",
                }
            };
            as_str
        } else {
            "Integer"
        }
    }
}

proof fn spec_width_sound(lo: int, hi: int, ext: bool)
    requires lo <= hi
    ensures fits(spec_width(lo, hi, ext), lo, hi),
            spec_width(lo, hi, ext) != IntegerType::Unbounded ==> !ext,
{}

proof fn names_injective(a: IntegerType, b: IntegerType)
    ensures type_name(a) == type_name(b) ==> a == b
{
    reveal_strlit("u8"); reveal_strlit("i8"); reveal_strlit("u16"); reveal_strlit("i16");
    reveal_strlit("u32"); reveal_strlit("i32"); reveal_strlit("u64"); reveal_strlit("i64"); reveal_strlit("Integer");
    // discriminate by (len, first char, second char)
    assert("u8"@.len() == 2 && "u8"@[0] == 'u' && "u8"@[1] == '8');
    assert("i8"@.len() == 2 && "i8"@[0] == 'i' && "i8"@[1] == '8');
    assert("u16"@.len() == 3 && "u16"@[0] == 'u' && "u16"@[1] == '1');
    assert("i16"@.len() == 3 && "i16"@[0] == 'i' && "i16"@[1] == '1');
    assert("u32"@.len() == 3 && "u32"@[0] == 'u' && "u32"@[1] == '3');
    assert("i32"@.len() == 3 && "i32"@[0] == 'i' && "i32"@[1] == '3');
    assert("u64"@.len() == 3 && "u64"@[0] == 'u' && "u64"@[1] == '6');
    assert("i64"@.len() == 3 && "i64"@[0] == 'i' && "i64"@[1] == '6');
    assert("Integer"@.len() == 7);
}

}
fn main(){}
