use vstd::prelude::*;
verus! {
pub struct ExtensionMarker();
pub struct Enumeral { pub name: String, pub description: Option<String>, pub index: i128 }
pub struct Enumerated { pub members: Vec<Enumeral>, pub extensible: Option<usize>, pub constraints: Vec<u8> }

pub struct Member { pub name: String }
pub enum SequenceComponent { Member(Member), ComponentsOf(String) }
pub struct SequenceOrSet { pub components_of: Vec<String>, pub extensible: Option<usize>, pub constraints: Vec<u8>, pub members: Vec<Member> }

pub fn enumerated_from(
        mut value: (
            Vec<Enumeral>,
            Option<ExtensionMarker>,
            Option<Vec<Enumeral>>,
        ),
    ) -> (r: Enumerated)
    ensures
        r.members@ == value.0@ + (match value.2 { Some(v) => v@, None => Seq::empty() }),
        r.extensible == (match value.1 { Some(_) => Some(value.0.len()), None => None::<usize> }),
{
        let index_of_first_extension = value.0.len();
        value.0.append(&mut value.2.unwrap_or_default());
        Enumerated {
            members: value.0,
            extensible: value.1.map(|_m| index_of_first_extension),
            constraints: vec![],
        }
}

pub fn seq_from(
        mut value: (
            (
                Vec<SequenceComponent>,
                Option<ExtensionMarker>,
                Option<Vec<SequenceComponent>>,
            ),
            Option<Vec<u8>>,
        ),
    ) -> (r: SequenceOrSet) {
        let index_of_first_extension = value.0 .0.len();
        value.0 .0.append(&mut value.0 .2.unwrap_or_default());
        let mut components_of = vec![];
        let mut members = vec![];
        for comp in value.0 .0 {
            match comp {
                SequenceComponent::Member(m) => members.push(m),
                SequenceComponent::ComponentsOf(c) => components_of.push(c),
            }
        }
        SequenceOrSet {
            components_of,
            constraints: value.1.unwrap_or_default(),
            extensible: value.0 .1.map(|_m| index_of_first_extension),
            members,
        }
}
}
fn main(){}
