"""Minimal Rust source scanner used by the extractor.

Works on the *text* of /repo's sources: masks comments, string and char literals so that
brace matching and header searches cannot be fooled by them, finds items by their header and
returns exact source spans.  Every lookup fails closed with LostAnchor.
"""
import hashlib
import re


class LostAnchor(Exception):
    """An item, anchor or rewrite rule no longer matches /repo's text (exit 2, never an alarm)."""


def mask(src: str) -> str:
    """Return a same-length copy of src with comment bodies and literal contents blanked."""
    out = list(src)
    i, n = 0, len(src)

    def blank(a, b):
        for k in range(a, b):
            if out[k] != "\n":
                out[k] = " "

    while i < n:
        c = src[i]
        if src.startswith("//", i):
            j = src.find("\n", i)
            j = n if j < 0 else j
            blank(i, j)
            i = j
        elif src.startswith("/*", i):
            depth, j = 1, i + 2
            while j < n and depth:
                if src.startswith("/*", j):
                    depth += 1
                    j += 2
                elif src.startswith("*/", j):
                    depth -= 1
                    j += 2
                else:
                    j += 1
            blank(i, j)
            i = j
        elif c == '"' or (c in "rb" and re.match(r'(?:b?r#*"|b")', src[i:i + 12]) and (i == 0 or not (src[i - 1].isalnum() or src[i - 1] == "_"))):
            m = re.match(r'(b?)(r(#*))?"', src[i:i + 12])
            raw = m.group(2) is not None
            hashes = m.group(3) or ""
            j = i + m.end()
            if raw:
                end = src.find('"' + hashes, j)
                end = n if end < 0 else end
                blank(j, end)
                i = end + 1 + len(hashes)
            else:
                while j < n and src[j] != '"':
                    j += 2 if src[j] == "\\" else 1
                blank(i + m.end(), j)
                i = j + 1
        elif c == "'":
            if i + 1 < n and src[i + 1] == "\\":
                j = src.find("'", i + 2)
                # '\'' : the quote right after the backslash is escaped
                if j == i + 2:
                    j = src.find("'", i + 3)
                blank(i + 1, j)
                i = j + 1
            elif i + 2 < n and src[i + 2] == "'":
                blank(i + 1, i + 2)
                i += 3
            else:
                i += 1  # lifetime
        else:
            i += 1
    return "".join(out)


def match_close(masked: str, open_idx: int) -> int:
    """Index just past the bracket matching the one at open_idx (works for {}, (), [])."""
    opener = masked[open_idx]
    closer = {"{": "}", "(": ")", "[": "]"}[opener]
    depth = 0
    for k in range(open_idx, len(masked)):
        ch = masked[k]
        if ch == opener:
            depth += 1
        elif ch == closer:
            depth -= 1
            if depth == 0:
                return k + 1
    raise LostAnchor("unbalanced bracket")


def depth_at(masked: str, idx: int) -> int:
    d = 0
    for ch in masked[:idx]:
        if ch == "{":
            d += 1
        elif ch == "}":
            d -= 1
    return d


def norm(s: str) -> str:
    return re.sub(r"\s+", " ", s).strip()


def squeeze(s: str) -> str:
    """Whitespace- and trailing-comma-insensitive key for header comparison."""
    s = re.sub(r"\s+", "", s)
    return s.replace(",)", ")").replace(",>", ">")


class Span:
    def __init__(self, path, src, start, end):
        self.path, self.start, self.end = path, start, end
        self.text = src[start:end]
        self.line_start = src.count("\n", 0, start) + 1
        self.line_end = src.count("\n", 0, end) + 1
        self.sha256 = hashlib.sha256(self.text.encode()).hexdigest()

    def where(self):
        return f"{self.path}:{self.line_start}-{self.line_end}"


class Source:
    def __init__(self, path, text):
        self.path, self.text = path, text
        self.masked = mask(text)

    def _item_end(self, start):
        """End of the item whose header starts at `start`: first top-level `{...}` or `;`."""
        m = self.masked
        k = start
        while k < len(m):
            ch = m[k]
            if ch in "([":
                k = match_close(m, k)
                continue
            if ch == "{":
                return match_close(m, k)
            if ch == ";":
                return k + 1
            k += 1
        raise LostAnchor("item without end")

    def find_item(self, head, lo=0, hi=None, depth=0):
        """Span of the item whose header starts with `head` (e.g. 'pub enum Constraint')."""
        hi = len(self.text) if hi is None else hi
        pat = re.compile(r"(?m)^[ \t]*" + r"\s+".join(re.escape(t) for t in head.split()) + r"(?![A-Za-z0-9_])")
        hits = [mm for mm in pat.finditer(self.masked, lo, hi) if depth_at(self.masked, mm.start()) == depth]
        if len(hits) != 1:
            raise LostAnchor(f"{self.path}: item `{head}` matched {len(hits)} times")
        start = hits[0].start()
        # keep leading indentation out of the span
        while self.text[start] in " \t":
            start += 1
        return Span(self.path, self.text, start, self._item_end(start))

    def find_impls(self, impl_head):
        """every impl block with the given header: [(start, body_open_idx, body_close_idx)]"""
        want = squeeze(impl_head)
        hits = []
        for mm in re.finditer(r"(?m)^impl\b", self.masked):
            if depth_at(self.masked, mm.start()) != 0:
                continue
            k = mm.start()
            # header runs up to the first `{` outside (), <>-insensitive
            j = k
            while j < len(self.masked):
                if self.masked[j] in "([":
                    j = match_close(self.masked, j)
                    continue
                if self.masked[j] == "{":
                    break
                j += 1
            if squeeze(self.text[k:j]) == want:
                hits.append((k, j, match_close(self.masked, j)))
        return hits

    def find_impl(self, impl_head):
        """(start, body_open_idx, body_close_idx) of THE impl block with the given header."""
        hits = self.find_impls(impl_head)
        if len(hits) != 1:
            raise LostAnchor(f"{self.path}: impl `{norm(impl_head)}` matched {len(hits)} times")
        return hits[0]

    def find_fn(self, impl_head, name):
        """Span of `fn name` (with its visibility qualifiers) inside the impl, or at top level."""
        pat = re.compile(r"(?m)^[ \t]*((?:pub(?:\([a-z:_ ]+\))?\s+)?(?:const\s+)?fn\s+" + re.escape(name) + r")(?![A-Za-z0-9_])")
        if impl_head:
            # a type may have several inherent impl blocks with the same header: the fn must occur exactly once in all of them
            blocks = self.find_impls(impl_head)
            if not blocks:
                raise LostAnchor(f"{self.path}: impl `{norm(impl_head)}` matched 0 times")
            hits = [mm for (_, lo, hi) in blocks for mm in pat.finditer(self.masked, lo, hi) if depth_at(self.masked, mm.start()) == 1]
        else:
            hits = [mm for mm in pat.finditer(self.masked, 0, len(self.text)) if depth_at(self.masked, mm.start()) == 0]
        if len(hits) != 1:
            raise LostAnchor(f"{self.path}: fn `{name}` in `{norm(impl_head or '<top level>')}` matched {len(hits)} times")
        start = hits[0].start(1)
        return Span(self.path, self.text, start, self._item_end(start))


def split_fn(fn_text):
    """(signature, body) with body starting at its opening brace."""
    m = mask(fn_text)
    k = 0
    while k < len(m):
        if m[k] in "([":
            k = match_close(m, k)
            continue
        if m[k] == "{":
            return fn_text[:k], fn_text[k:]
        k += 1
    raise LostAnchor("fn without body")
