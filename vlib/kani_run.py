"""Run Kani harnesses in place on /repo/rasn-compiler and turn the per-check results into obligations."""
import os
import re
import subprocess
import time

REPO_CRATE = "/repo/rasn-compiler"


def kani_env(verif_dir):
    env = dict(os.environ)
    env["CARGO_NET_OFFLINE"] = "true"
    env["RUSTFLAGS"] = "--cfg librasn_compiler_verif"
    env["LIBRASN_VERIF_DIR"] = verif_dir
    env["CARGO_TARGET_DIR"] = os.path.join(verif_dir, "build", "kani-target")
    return env


class KaniResult:
    def __init__(self):
        self.status = "undecided"
        self.reason = ""
        self.obligations = {}      # name -> dict(status, detail, harness)
        self.harness = {}          # harness -> dict(status, time_s, checks, failed, covers_total, covers_sat)
        self.wall_s = 0.0
        self.cmd = ""
        self.log = ""


def parse_log(text, wanted):
    """Split a `--output-format regular` log per harness."""
    res = {}
    # harness sections start with "Checking harness <path>..."
    parts = re.split(r"(?m)^(?:Thread \d+: )?Checking harness ([^\n]+?)\.\.\.\s*$", text)
    # parts = [pre, name1, body1, name2, body2, ...]
    for i in range(1, len(parts), 2):
        full = parts[i].strip()
        short = full.split("::")[-1]
        body = parts[i + 1]
        checks = []
        for m in re.finditer(r"Check \d+: ([^\n]+)\n\s*- Status: (\w+)\n\s*- Description: \"((?:[^\"\\]|\\.)*)\"(?:\n\s*- Location: ([^\n]+))?", body):
            checks.append({"id": m.group(1), "status": m.group(2), "desc": m.group(3), "loc": (m.group(4) or "")})
        ver = re.search(r"VERIFICATION:- (\w+)", body)
        tm = re.search(r"Verification Time: ([0-9.]+)s", body)
        cov = re.search(r"\*\* (\d+) of (\d+) cover properties satisfied", body)
        res[short] = {"full": full, "checks": checks, "verdict": ver.group(1) if ver else None, "time_s": float(tm.group(1)) if tm else None,
                      "covers": (int(cov.group(1)), int(cov.group(2))) if cov else (0, 0), "body_tail": body[-1500:]}
    return res


def run(harnesses, verif_dir, timeout=1500, jobs=8, extra_args=None):
    r = KaniResult()
    t0 = time.time()
    cmd = ["cargo", "kani", "--lib", "--output-format", "regular"]
    for h in harnesses:
        cmd += ["--harness", h]
    cmd += extra_args or []
    r.cmd = "cd /repo/rasn-compiler && RUSTFLAGS='--cfg librasn_compiler_verif' LIBRASN_VERIF_DIR=/verif " + " ".join(cmd)
    try:
        p = subprocess.run(cmd, cwd=REPO_CRATE, env=kani_env(verif_dir), capture_output=True, text=True, timeout=timeout)
        out = p.stdout + "\n" + p.stderr
    except subprocess.TimeoutExpired as e:
        r.reason = f"cargo kani timed out after {timeout}s"
        r.wall_s = time.time() - t0
        subprocess.run(["pkill", "-x", "cbmc"])
        return r
    r.wall_s = time.time() - t0
    r.log = out
    if re.search(r"error: could not compile|error\[E\d+\]|internal compiler error|Kani unexpectedly panicked", out) and "Checking harness" not in out:
        tail = [l for l in out.split("\n") if l.startswith("error")][:3]
        r.reason = "kani build failed: " + " | ".join(tail)
        return r
    per = parse_log(out, harnesses)
    any_failed, undecided = False, []
    for h in harnesses:
        info = per.get(h)
        if not info or info["verdict"] is None:
            undecided.append(f"{h}: no verdict (crash, ICE or timeout)")
            r.harness[h] = {"status": "undecided", "time_s": None, "checks": 0}
            continue
        safety_failed = []
        names = {}
        for c in info["checks"]:
            d = c["desc"]
            if re.match(r"C\d\d\.", d):
                names.setdefault(d, []).append(c)
            elif c["status"] == "FAILURE":
                safety_failed.append(f"{c['id']}: {d} @ {c['loc']}")
            elif c["status"] not in ("SUCCESS", "SATISFIED", "UNREACHABLE", "UNSATISFIABLE", "UNDETERMINED"):
                pass
        for name, cs in names.items():
            if name.split(".")[-1].startswith("cover_"):
                continue
            st = "discharged"
            detail = ""
            if any(c["status"] == "FAILURE" for c in cs):
                st, detail = "failed", "Kani: Status FAILURE — " + "; ".join(c["loc"] for c in cs if c["status"] == "FAILURE")[:300]
            elif all(c["status"] == "UNREACHABLE" for c in cs):
                st, detail = "undecided", "assertion unreachable (vacuous harness)"
            elif any(c["status"] not in ("SUCCESS", "UNREACHABLE") for c in cs):
                st, detail = "undecided", "Kani status " + ",".join(sorted(set(c["status"] for c in cs)))
            prev = r.obligations.get(name)
            if prev is None or st == "failed" or (st == "undecided" and prev["status"] == "discharged"):
                r.obligations[name] = {"status": st, "detail": detail, "harness": h, "instances": len(cs), "kind": "kani-assertion"}
        sname = f"{h}.safety"
        r.obligations[sname] = {"status": "failed" if safety_failed else "discharged", "detail": "; ".join(safety_failed)[:600], "harness": h,
                                "instances": len([c for c in info["checks"] if not re.match(r"C\d\d\.", c["desc"])]),
                                "kind": "kani-builtin-checks (overflow, bounds, pointer validity, unwinding assertions)"}
        sat, tot = info["covers"]
        if tot and sat != tot:
            undecided.append(f"{h}: only {sat} of {tot} cover properties satisfied (vacuity guard)")
        unwinding = [c for c in info["checks"] if "unwinding assertion" in c["desc"] and c["status"] == "FAILURE"]
        if unwinding:
            # an unwinding failure is a bound problem of the harness, not a verdict about the code
            undecided.append(f"{h}: unwinding assertion failed (bound too small)")
            r.obligations[sname]["status"] = "undecided"
        hfailed = any(o["status"] == "failed" and o["harness"] == h for o in r.obligations.values())
        any_failed = any_failed or hfailed
        r.harness[h] = {"status": "failed" if hfailed else "ok", "time_s": info["time_s"], "checks": len(info["checks"]), "covers": [sat, tot], "full": info["full"]}
        if info["verdict"] != "SUCCESSFUL" and not hfailed and not unwinding:
            undecided.append(f"{h}: verdict {info['verdict']} without an attributable failed check")
    if any_failed:
        r.status = "failed"
    elif undecided:
        r.status = "undecided"
        r.reason = "; ".join(undecided[:4])
    else:
        r.status = "ok"
    if undecided and any_failed:
        r.reason = "; ".join(undecided[:4])
    return r


def concrete_playback(harness, verif_dir, timeout=900):
    """Re-run one failing harness with -Z concrete-playback=print; return the list of byte vectors (hex strings) or None."""
    cmd = ["cargo", "kani", "--lib", "--harness", harness, "-Z", "concrete-playback", "--concrete-playback=print"]
    try:
        p = subprocess.run(cmd, cwd=REPO_CRATE, env=kani_env(verif_dir), capture_output=True, text=True, timeout=timeout)
    except subprocess.TimeoutExpired:
        return None, "concrete playback timed out"
    out = p.stdout + p.stderr
    m = re.search(r"let concrete_vals: Vec<Vec<u8>> = vec!\[(.*?)\];", out, re.S)
    if not m:
        return None, out[-800:]
    vals = []
    for vm in re.finditer(r"vec!\[([0-9,\s]*)\]", m.group(1)):
        nums = [int(x) for x in vm.group(1).replace("\n", " ").split(",") if x.strip()]
        vals.append("".join(f"{b:02x}" for b in nums))
    return vals, m.group(0)[:3000]
