"""Verus unit builder: template (contracts/*.vt) + current /repo text -> build/verus/<unit>.rs

A template is a Verus source file with `//@@` directives.  Everything outside directives is
specification text written for this framework (spec fns, lemmas, opaque declarations).  Directives
pull *exact source spans* out of /repo on every run and splice contracts / ghost annotations in:

  //@@ include <file>                             the lines of contracts/<file> (shared specification text) in place of the directive
  //@@ type <relpath> :: <item head>             copy of a struct/enum definition (rule D1: attributes dropped)
  //@@ typereplace <rule> `<old>` => `<new>`     exact replacement inside the type copied by the preceding `type` directive
                                                 (rule D8: a field type without Verus model spelled as an opaque struct); once
  //@@ opaque <Name> :: <relpath>                `#[verifier::external_body] pub struct Name {..}` (rule D6); Name must
                                                 still be declared in <relpath>
  //@@ fn <relpath> :: <impl head | -> :: <fn name>
  //@@   id <prefix>                             obligation prefix, e.g. C06.integer_constraints
  //@@   rename <new fn name>                    rule D4 (trait impl method -> free fn)
  //@@   selftype <T>                            rule D4 (`Self` -> T)
  //@@   vis <text>                              replace the visibility qualifier (non-executable)
  //@@   ret <name>                              S1: `-> T` becomes `-> (name: T)`
  //@@   rule D2|D5                              tolerant textual rules (see RULES below)
  //@@   replace <rule> `<old>` => `<new>`       exact, must match exactly once (fail closed)
  //@@   replaceall <rule> `<old>` => `<new>`    exact, every occurrence, at least one (fail closed)
  //@@   splitarm [#k] `<pattern>`               rule D11: the match arm whose pattern is the or-pattern <pattern> is written as
                                                 one arm per alternative, each with a verbatim copy of the arm's body
  //@@   cutarm [#k] `<pattern>` => `<expr>`     rule D7: the match arm whose pattern is <pattern> (white-space
                                                 insensitive, must match exactly one arm) keeps its pattern but its
                                                 body is replaced by <expr> — normally a call of an uninterpreted
                                                 `external_body` function: the arm's code is NOT verified
  //@@   cutfirst                                the cutarm directives of this function are applied before its rules (default: after)
  //@@   insert before|after [#k] `<anchor>` :: <ghost text>
  //@@   insert before|after [#k] `<anchor>` <<  (multi-line ghost text until `//@@   >>`)
  //@@   contract                                lines up to `//@@   endcontract` go between signature and body
  //@@ end
  //@@ block <relpath> :: <impl head | -> :: <fn name>   rule B1: a STATEMENT BLOCK of the named function, verified as a function of its free
  //@@   from `<anchor>`                          variables: the exact text from the (unique) start anchor up to and including the first
  //@@   to `<anchor>`                            occurrence of the end anchor after it is copied verbatim as the body of a function whose
  //@@   wrap `<signature>`                       signature is given here (specification text: it names the block's free variables and their
  //@@   tail `<expr>`                            types) and whose result is <expr> (normally the variable the block binds).  The rest of the
  //@@   ... (id, rule, replace, insert, contract as for fn)   enclosing function is NOT verified by this directive.
  //@@ end

Obligation names: a trailing `//# NAME` comment on the last line of a contract clause / invariant.
"""
import difflib
import os
import re

from .rustscan import LostAnchor, Source, Span, depth_at, mask, match_close, split_fn

GHOST_PREFIXES = ("proof {", "invariant", "decreases", "let ghost", "assert", "it:", "-> (", "ensures", "requires", "broadcast use")


class TemplateError(Exception):
    pass


def strip_attrs(text):
    """D1: drop every outer attribute `#[...]` in a copied type definition (derives, cfg_attr, default)."""
    m = mask(text)
    out, i, dropped = [], 0, []
    while i < len(text):
        if m[i] == "#" and i + 1 < len(m) and m[i + 1] == "[":
            j = match_close(m, i + 1)
            dropped.append(re.sub(r"\s+", " ", text[i:j]))
            i = j
            # swallow the newline + indentation that followed the attribute
            k = i
            while k < len(text) and text[k] in " \t":
                k += 1
            if k < len(text) and text[k] == "\n":
                i = k + 1
            continue
        out.append(text[i])
        i += 1
    return "".join(out), dropped


def rule_D2(body):
    """D2: diagnostic text dropped.  `&format!(..)` -> `""`, `grammar_error!(Kind, ..)` -> GrammarError::new("", GrammarErrorType::Kind),
    `eprintln!(..)` -> `()`.  Control flow and error kinds are kept."""
    applied = []
    while True:
        m = mask(body)
        mm = re.search(r"&\s*format!\s*\(", m)
        if mm:
            end = match_close(m, mm.end() - 1)
            applied.append(("D2", re.sub(r"\s+", " ", body[mm.start():end])[:160], '""'))
            body = body[:mm.start()] + '""' + body[end:]
            continue
        mm = re.search(r"\bgrammar_error!\s*\(\s*([A-Za-z]+)\s*,", m)
        if mm:
            end = match_close(m, m.index("(", mm.start()))
            new = f'GrammarError::new("", GrammarErrorType::{mm.group(1)})'
            applied.append(("D2", re.sub(r"\s+", " ", body[mm.start():end])[:160], new))
            body = body[:mm.start()] + new + body[end:]
            continue
        mm = re.search(r"\beprintln!\s*\(", m)
        if mm:
            end = match_close(m, mm.end() - 1)
            applied.append(("D2", re.sub(r"\s+", " ", body[mm.start():end])[:160], "()"))
            body = body[:mm.start()] + "()" + body[end:]
            continue
        return body, applied


def rule_D5(body):
    """D5: closure parameter `|_|` -> `|_u|` (Verus limitation; same semantics)."""
    n = len(re.findall(r"\|_\|", mask(body)))
    return re.sub(r"\|_\|", "|_u|", body), [("D5", "|_|", "|_u|")] * n


def rule_D5c(body):
    """D5 for `Option::map(|_| ident)`: the closure gets a parameter name and a ghost signature
    `|_u| -> (k: usize) ensures k == ident { ident }` (same executable meaning); must match exactly once."""
    pat = re.compile(r"\.map\(\|_\|\s*([A-Za-z_][A-Za-z0-9_]*)\s*\)")
    hits = pat.findall(mask(body))
    if len(hits) != 1:
        raise LostAnchor(f"rule D5c: `.map(|_| ident)` matched {len(hits)} times")
    ident = hits[0]
    new = f".map(|_u| -> (k: usize) ensures k == {ident} {{ {ident} }})"
    return pat.sub(new, body, count=1), [("D5", f".map(|_| {ident})", new)]


def locate_arm(body, pattern, ordinal=None, rule="D7"):
    """Find the match arm whose pattern equals `pattern` (ignoring white-space); with `#k` the k-th such arm.
    -> (pat_start, arrow, body_start, end, has_trailing_comma, depth_of_arm)"""
    m = mask(body)
    # nesting depth over all bracket kinds, before each character
    depth, d = [], 0
    for ch in m:
        if ch in ")]}":
            d -= 1
        depth.append(d)
        if ch in "([{":
            d += 1
    want = re.sub(r"\s+", "", pattern)
    hits = []
    for mm in re.finditer(r"=>", m):
        arrow = mm.start()
        d0 = depth[arrow]
        k = arrow - 1
        # walk back to the end of the previous arm (`,` at the arm level, or the `}` of a block body) or to the `{`
        # that opens the match; bracket groups that belong to the pattern itself (struct / tuple patterns) are skipped
        while k >= 0:
            if (m[k] == "," and depth[k] == d0) or (m[k] == "{" and depth[k] == d0 - 1):
                break
            if m[k] in ")]}" and depth[k] == d0:
                # find the matching opener
                j = k
                while j >= 0 and not (m[j] in "([{" and depth[j] == d0):
                    j -= 1
                if j < 0:
                    break
                q = j - 1
                while q >= 0 and m[q] in " \t\n":
                    q -= 1
                if m[k] == "}" and q >= 1 and m[q - 1:q + 1] == "=>":
                    break          # block body of the previous arm
                k = j - 1
                continue
            k -= 1
        pat_start = k + 1
        if re.sub(r"\s+", "", body[pat_start:arrow]) == want:
            hits.append((pat_start, arrow))
    if ordinal is None:
        if len(hits) != 1:
            raise LostAnchor(f"rule {rule}: arm pattern `{pattern[:60]}` matched {len(hits)} arms")
        pat_start, arrow = hits[0]
    else:
        if not (1 <= ordinal <= len(hits)):
            raise LostAnchor(f"rule {rule}: arm pattern `{pattern[:60]}` #{ordinal} of {len(hits)} arms")
        pat_start, arrow = hits[ordinal - 1]
    d0 = depth[arrow]
    k = arrow + 2
    while body[k] in " \t\n":
        k += 1
    comma = False
    if m[k] == "{":
        end = match_close(m, k)
        tail = end
        while tail < len(body) and body[tail] in " \t":
            tail += 1
        if tail < len(body) and body[tail] == ",":
            end = tail + 1
            comma = True
    else:
        end = k
        while end < len(m) and not (m[end] == "," and depth[end] == d0) and not (m[end] == "}" and depth[end] == d0 - 1):
            end += 1
        if end < len(m) and m[end] == ",":
            end += 1
            comma = True
    return pat_start, arrow, k, end, comma


def cut_arm(body, pattern, expr, ordinal=None):
    """D7: replace the body of the one match arm whose pattern equals `pattern` (ignoring white-space); with
    `#k of n` the k-th of exactly n such arms."""
    pat_start, arrow, k, end, comma = locate_arm(body, pattern, ordinal, "D7")
    old = body[k:end]
    new_body = body[:k] + expr + "," + body[end:]
    return new_body, [("D7", "arm `" + re.sub(r"\s+", " ", pattern)[:100] + "`: body of " + str(old.strip().count(chr(10)) + 1) + " line(s) replaced, not verified", expr)]


def split_arm(body, pattern, ordinal=None):
    """D11: `P1 | P2 | .. => BODY` (an or-pattern, which Verus rejects when it binds by mutable reference) is written as
    `P1 => BODY, P2 => BODY, ..` — one arm per alternative, the body copied verbatim.  In Rust an or-pattern arm means
    exactly that (all alternatives bind the same names with the same types)."""
    pat_start, arrow, k, end, comma = locate_arm(body, pattern, ordinal, "D11")
    pat = body[pat_start:arrow]
    mp = mask(pat)
    alts, d, last = [], 0, 0
    for i, ch in enumerate(mp):
        if ch in "([{":
            d += 1
        elif ch in ")]}":
            d -= 1
        elif ch == "|" and d == 0:
            alts.append(pat[last:i])
            last = i + 1
    alts.append(pat[last:])
    alts = [a.strip() for a in alts]
    if len(alts) < 2 or any(not a for a in alts):
        raise LostAnchor(f"rule D11: `{pattern[:60]}` is not an or-pattern")
    arm_body = body[k:end].rstrip()
    if arm_body.endswith(","):
        arm_body = arm_body[:-1]
    lead = re.match(r"\s*", pat).group(0)
    arms = "".join(f"{lead}{a} => {arm_body}," for a in alts)
    new_body = body[:pat_start] + arms + body[end:]
    return new_body, [("D11", "arm `" + re.sub(r"\s+", " ", pattern)[:100] + "`", f"{len(alts)} arms with the same body")]


def rule_D10(body):
    """D10: `RECV.iter_mut().for_each(|x| { BODY })` is written as `for x in RECV.iter_mut() { BODY }` — the definition of
    Iterator::for_each for a closure without early exit.  RECV must be a plain field path, BODY must not contain
    `return`, `break`, `continue` or `?` (their meaning would change); every occurrence, at least one."""
    applied = []
    while True:
        m = mask(body)
        mm = re.search(r"([A-Za-z_][A-Za-z0-9_]*(?:\s*\.\s*[A-Za-z_0-9]+)*)\s*\.iter_mut\(\)\s*\.for_each\(\s*\|\s*([A-Za-z_][A-Za-z0-9_]*)\s*\|\s*\{", m)
        if not mm:
            break
        open_brace = mm.end() - 1
        close_brace = match_close(m, open_brace)            # index just after the `}`
        k = close_brace
        while k < len(m) and m[k] in " \t\n":
            k += 1
        if k >= len(m) or m[k] != ")":
            raise LostAnchor("rule D10: closure block of for_each is not directly followed by `)`")
        blk = m[open_brace:close_brace]
        if re.search(r"\breturn\b|\bbreak\b|\bcontinue\b|\?", blk):
            raise LostAnchor("rule D10: for_each closure contains return/break/continue/?")
        recv, var = mm.group(1), mm.group(2)
        new = f"for {var} in {recv}.iter_mut() " + body[open_brace:close_brace]
        applied.append(("D10", re.sub(r"\s+", " ", body[mm.start():open_brace + 1])[:120] + " .. })", f"for {var} in {recv}.iter_mut() {{ .. }}"))
        body = body[:mm.start()] + new + body[k + 1:]
    if not applied:
        raise LostAnchor("rule D10: no `.iter_mut().for_each(|x| { .. })` found")
    return body, applied


def rule_D12(body, scaffold=False, iter_method="iter", rule="D12"):
    """D12: `RECV.iter().fold(INIT, |acc, x| BODY)` is written as
    `{ let mut acc = INIT; for x in RECV.iter() { acc = BODY; } acc }` — the definition of Iterator::fold (std: `let mut accum = init;
    while let Some(x) = self.next() { accum = f(accum, x); } accum`).  RECV must be a plain field path, BODY (block or
    expression) must not contain `return`, `break`, `continue` or `?`; every occurrence, at least one."""
    applied = []
    while True:
        m = mask(body)
        mm = re.search(r"([A-Za-z_][A-Za-z0-9_]*(?:\s*\.\s*[A-Za-z_0-9]+)*)\s*\." + iter_method + r"\(\)\s*\.fold\(", m)
        if not mm:
            break
        call_open = mm.end() - 1
        call_close = match_close(m, call_open) - 1            # index of the matching `)`
        inner_m, inner = m[call_open + 1:call_close], body[call_open + 1:call_close]
        # split `INIT, |acc, x| BODY` at the first top-level comma
        d, cut = 0, None
        for i, ch in enumerate(inner_m):
            if ch in "([{":
                d += 1
            elif ch in ")]}":
                d -= 1
            elif ch == "," and d == 0:
                cut = i
                break
        if cut is None:
            raise LostAnchor("rule D12: fold without initial value")
        init = inner[:cut].strip()
        cm = re.match(r"\s*\|\s*([A-Za-z_][A-Za-z0-9_]*)\s*,\s*([A-Za-z_][A-Za-z0-9_]*)\s*\|\s*", inner_m[cut + 1:])
        if not cm:
            raise LostAnchor("rule D12: fold closure is not `|acc, x| ..`")
        acc, var = cm.group(1), cm.group(2)
        cbody = inner[cut + 1 + cm.end():].strip()
        if cbody.endswith(","):
            cbody = cbody[:-1].rstrip()
        if re.search(r"\breturn\b|\bbreak\b|\bcontinue\b|\?", mask(cbody)):
            raise LostAnchor("rule D12: fold closure contains return/break/continue/?")
        recv = mm.group(1)
        if scaffold:
            k = len(applied) + 1
            it, sq = f"it_fold_{k}", f"seq_fold_{k}"
            r = re.sub(r"\s+", "", recv)
            new = (f"({{ let mut {acc} = {init}; let ghost {sq} = {r}@; for {var} in {it}: {recv}.iter() invariant {it}.seq().len() == {sq}.len(), "
                   f"forall|i_: int| 0 <= i_ < {it}.seq().len() ==> *(#[trigger] {it}.seq()[i_]) == {sq}[i_], /*INV:fold_{k}*/ "
                   f"{{ /*STEP:fold_{k}*/ {acc} = {cbody}; }} {acc} }})")
        else:
            new = f"({{ let mut {acc} = {init}; for {var} in {recv}.{iter_method}() {{ {acc} = {cbody}; }} {acc} }})"
        applied.append((rule, re.sub(r"\s+", " ", body[mm.start():call_close + 1])[:160], re.sub(r"\s+", " ", new)[:200]))
        body = body[:mm.start()] + new + body[call_close + 1:]
    if not applied:
        raise LostAnchor(f"rule {rule}: no `.{iter_method}().fold(init, |acc, x| ..)` found")
    return body, applied


def rule_D12m(body):
    """D12m: D12 for `RECV.iter_mut().fold(INIT, |acc, x| BODY)`: `{ let mut acc = INIT; for x in RECV.iter_mut() { acc = BODY; } acc }`
    (the definition of Iterator::fold; BODY may mutate through `x`, it is evaluated once per element in order either way)."""
    return rule_D12(body, scaffold=False, iter_method="iter_mut", rule="D12m")


def rule_D17(body):
    """D17: `RECV.iter().enumerate().for_each(|(i, x)| { BODY })` is written as
    `{ let mut i: usize = 0; for x in RECV.iter() { { BODY } i = i + 1; } }` — Iterator::for_each over Enumerate, whose definition is
    a counter that starts at 0 and is incremented after each item.  RECV a plain path; BODY without return/break/continue/?
    and without assignment to the counter; every occurrence, at least one."""
    applied = []
    while True:
        m = mask(body)
        mm = re.search(r"([A-Za-z_][A-Za-z0-9_]*(?:\s*\.\s*[A-Za-z_0-9]+)*)\s*\.iter\(\)\s*\.enumerate\(\)\s*\.for_each\(\s*\|\s*\(\s*([A-Za-z_][A-Za-z0-9_]*)\s*,\s*([A-Za-z_][A-Za-z0-9_]*)\s*\)\s*\|\s*\{", m)
        if not mm:
            break
        open_brace = mm.end() - 1
        close_brace = match_close(m, open_brace)
        k = close_brace
        while k < len(m) and m[k] in " \t\n":
            k += 1
        if k >= len(m) or m[k] != ")":
            raise LostAnchor("rule D17: closure block of for_each is not directly followed by `)`")
        blk = m[open_brace:close_brace]
        recv, idx, var = re.sub(r"\s+", "", mm.group(1)), mm.group(2), mm.group(3)
        if re.search(r"\breturn\b|\bbreak\b|\bcontinue\b|\?", blk) or re.search(r"\b" + idx + r"\s*(\+|-|\*)?=[^=]", blk):
            raise LostAnchor("rule D17: for_each closure contains return/break/continue/? or assigns the counter")
        new = f"{{ let mut {idx}: usize = 0; for {var} in {recv}.iter() {{ " + body[open_brace:close_brace] + f" {idx} = {idx} + 1; }} }}"
        applied.append(("D17", re.sub(r"\s+", " ", body[mm.start():open_brace + 1])[:140] + " .. })", f"{{ let mut {idx}: usize = 0; for {var} in {recv}.iter() {{ {{ .. }} {idx} = {idx} + 1; }} }}"))
        body = body[:mm.start()] + new + body[k + 1:]
    if not applied:
        raise LostAnchor("rule D17: no `.iter().enumerate().for_each(|(i, x)| { .. })` found")
    return body, applied


def rule_D13(body):
    """D13: `for x in RECV.iter().filter(|y| y.METHOD()) { BODY }` is written as `for x in RECV.iter() { if x.METHOD() { BODY } }` —
    the definition of Iterator::filter for a side-effect-free predicate that is a method call on the item (auto-deref makes
    `y.METHOD()` on `&&T` and `x.METHOD()` on `&T` the same call).  RECV must be a plain path; exactly one occurrence."""
    m = mask(body)
    hits = list(re.finditer(r"for\s+([A-Za-z_][A-Za-z0-9_]*)\s+in\s+([A-Za-z_][A-Za-z0-9_]*(?:\s*\.\s*[A-Za-z_0-9]+)*)\s*\.iter\(\)\s*\.filter\(\s*\|\s*([A-Za-z_][A-Za-z0-9_]*)\s*\|\s*\3\s*\.\s*([A-Za-z_][A-Za-z0-9_]*)\(\)\s*\)\s*\{", m))
    if len(hits) != 1:
        raise LostAnchor(f"rule D13: `for x in RECV.iter().filter(|y| y.method()) {{` matched {len(hits)} times")
    mm = hits[0]
    var, recv, _, method = mm.groups()
    open_brace = mm.end() - 1
    close = match_close(m, open_brace)          # index just after the loop's `}`
    new = (body[:mm.start()] + f"for {var} in {recv}.iter() {{ if {var}.{method}() " + body[open_brace:close] + " }" + body[close:])
    return new, [("D13", re.sub(r"\s+", " ", body[mm.start():open_brace + 1]), f"for {var} in {recv}.iter() {{ if {var}.{method}() {{ .. }} }}")]


def rule_D12s(body):
    """D12 with ghost scaffolding (named ghost iterator `it_fold_k`, ghost copy `seq_fold_k` of the receiver's view, the two
    standard invariants, anchors /*INV:fold_k*/ and /*STEP:fold_k*/; k = order of appearance).  Specification text only."""
    return rule_D12(body, scaffold=True)


def _iter_adapter(body, method, rule, build):
    """shared scanner for `RECV.iter().<method>(|x| BODY)` with RECV a plain path; `build(recv, var, cbody)` gives the loop text"""
    applied = []
    while True:
        m = mask(body)
        mm = re.search(r"([A-Za-z_][A-Za-z0-9_]*(?:\s*\.\s*[A-Za-z_0-9]+)*)\s*\.iter\(\)\s*\." + method + r"\(\s*\|\s*([A-Za-z_][A-Za-z0-9_]*)\s*\|\s*", m)
        if not mm:
            break
        call_open = m.index("(", m.index("." + method, mm.start()))
        call_close = match_close(m, call_open) - 1
        cbody = body[mm.end():call_close].strip()
        if cbody.endswith(","):
            cbody = cbody[:-1].rstrip()
        if re.search(r"\breturn\b|\bbreak\b|\bcontinue\b|\?", mask(cbody)):
            raise LostAnchor(f"rule {rule}: closure contains return/break/continue/?")
        recv, var = mm.group(1), mm.group(2)
        new = build(recv, var, cbody, m, len(applied) + 1)
        applied.append((rule, re.sub(r"\s+", " ", body[mm.start():call_close + 1])[:160], re.sub(r"\s+", " ", new)[:200]))
        body = body[:mm.start()] + new + body[call_close + 1:]
    if not applied:
        raise LostAnchor(f"rule {rule}: no `.iter().{method}(|x| ..)` found")
    return body, applied


def rule_D14(body):
    """D14: `RECV.iter().find_map(|x| BODY)` is written as
    `{ let mut found_first_R = None; for x in RECV.iter() { if found_first_R.is_none() { found_first_R = BODY; } } found_first_R }` (R = last segment of RECV) — the first
    `Some` the closure yields, in iteration order.  Equal to Iterator::find_map for a closure without side effects (std stops
    calling it after the first hit; here the remaining calls are skipped by the `is_none` test).  RECV a plain path, BODY
    without return/break/continue/?; every occurrence, at least one."""
    def build(recv, var, cbody, m, k):
        name = "found_first_" + re.sub(r"\W", "", recv.split(".")[-1])
        if re.search(r"\b" + name + r"\b", m):
            name = f"{name}_{k}"
        if re.search(r"\b" + name + r"\b", m):
            raise LostAnchor(f"rule D14: the name {name} is already in use")
        return f"{{ let mut {name} = None; for {var} in {recv}.iter() {{ if {name}.is_none() {{ {name} = {cbody}; }} }} {name} }}"
    return _iter_adapter(body, "find_map", "D14", build)


def rule_D15(body):
    """D15: `RECV.iter().any(|x| COND)` is written as
    `{ let mut any_hit_R = false; for x in RECV.iter() { if !any_hit_R { any_hit_R = COND; } } any_hit_R }` (Iterator::any for a predicate
    without side effects).  RECV a plain path, COND without return/break/continue/?; every occurrence, at least one."""
    def build(recv, var, cbody, m, k):
        name = "any_hit_" + re.sub(r"\W", "", recv.split(".")[-1])
        if re.search(r"\b" + name + r"\b", m):
            name = f"{name}_{k}"
        if re.search(r"\b" + name + r"\b", m):
            raise LostAnchor(f"rule D15: the name {name} is already in use")
        return f"{{ let mut {name} = false; for {var} in {recv}.iter() {{ if !{name} {{ {name} = {cbody}; }} }} {name} }}"
    return _iter_adapter(body, "any", "D15", build)


def rule_D15s(body):
    """D15 with ghost scaffolding: as D15, and the loop gets a named ghost iterator `it_<name>`, the two standard ghost
    invariants that identify the iterated sequence with `seq_<name>` (a ghost copy of RECV's view taken before the loop, so that a
    loop variable shadowing a name in RECV does no harm), and two ghost anchors `/*INV:<name>*/` (inside the invariant
    block) and `/*STEP:<name>*/` (first statement of the loop body) at which a template attaches its own invariants / lemma
    calls.  All additions are specification text; the executable text is that of D15."""
    def build(recv, var, cbody, m, k):
        name = "any_hit_" + re.sub(r"\W", "", recv.split(".")[-1])
        if re.search(r"\b" + name + r"\b", m):
            name = f"{name}_{k}"
        if re.search(r"\b" + name + r"\b", m):
            raise LostAnchor(f"rule D15s: the name {name} is already in use")
        it = "it_" + name
        r = re.sub(r"\s+", "", recv)
        sq = "seq_" + name
        return (f"({{ let mut {name} = false; let ghost {sq} = {r}@; for {var} in {it}: {recv}.iter() invariant {it}.seq().len() == {sq}.len(), "
                f"forall|i_: int| 0 <= i_ < {it}.seq().len() ==> *(#[trigger] {it}.seq()[i_]) == {sq}[i_], /*INV:{name}*/ "
                f"{{ /*STEP:{name}*/ if !{name} {{ {name} = {cbody}; }} }} {name} }})")
    return _iter_adapter(body, "any", "D15", build)


def rule_D18(body):
    """D18: `(A..=B).map(|i| BODY).collect()` (in a function that returns the collected `Vec`) is written as
    `({ let mut collected = Vec::new(); let mut i = A; while i <= B { collected.push(BODY); i = i + 1; } collected })` — the
    definition of RangeInclusive iteration (A, A+1, .., B in order; nothing when A > B) followed by Iterator::map and collect into a
    Vec.  The while loop would overflow where `B` is the largest value of the type, which RangeInclusive handles; the contract of
    the function therefore has to carry `B < MAX` as a precondition, and Verus proves the absence of overflow from it.  A, B
    plain paths or literals; BODY without return/break/continue/?; exactly one occurrence."""
    m = mask(body)
    hits = list(re.finditer(r"\(\s*([A-Za-z_0-9]+)\s*\.\.=\s*([A-Za-z_][A-Za-z0-9_.]*)\s*\)\s*\.map\(\s*\|\s*([A-Za-z_][A-Za-z0-9_]*)\s*\|\s*", m))
    if len(hits) != 1:
        raise LostAnchor(f"rule D18: `(A..=B).map(|i| ..)` matched {len(hits)} times")
    mm = hits[0]
    call_open = m.index("(", m.index(".map", mm.start()))
    call_close = match_close(m, call_open) - 1
    cbody = body[mm.end():call_close].strip()
    if cbody.endswith(","):
        cbody = cbody[:-1].rstrip()
    if re.search(r"\breturn\b|\bbreak\b|\bcontinue\b|\?", mask(cbody)):
        raise LostAnchor("rule D18: closure contains return/break/continue/?")
    tail = re.match(r"\s*\.collect\(\)", m[call_close + 1:])
    if not tail:
        raise LostAnchor("rule D18: `.map(..)` is not directly followed by `.collect()`")
    lo, hi, var = mm.group(1), mm.group(2), mm.group(3)
    if re.search(r"\bcollected\b", m):
        raise LostAnchor("rule D18: the name `collected` is already in use")
    new = f"({{ let mut collected = Vec::new(); let mut {var} = {lo}; while {var} <= {hi} {{ collected.push({cbody}); {var} = {var} + 1; }} collected }})"
    end = call_close + 1 + tail.end()
    return body[:mm.start()] + new + body[end:], [("D18", re.sub(r"\s+", " ", body[mm.start():end])[:160], re.sub(r"\s+", " ", new)[:200])]


def _rust_str(text):
    return '"' + text.replace("\\", "\\\\").replace('"', '\\"') + '"'


def _norm_tokens(text):
    """token-level normal form of a quote! template: white-space is kept (as one blank) only between two word characters"""
    t = re.sub(r"\s+", " ", text).strip()
    t = re.sub(r"(?<![A-Za-z0-9_]) | (?![A-Za-z0-9_])", "", t)
    return t


def rule_D19(body):
    """D19 (quote! as a function of its template and its interpolated values): `quote!(TEMPLATE)` / `quote! { TEMPLATE }` is written
    `quoteN("TEMPLATE", &a, &b, ..)` where a, b, .. are the distinct `#ident` interpolations of TEMPLATE in order of first appearance (N of them; in the kept template text they are written #0, #1, .. so that renaming a local does not change the template) and the
    template text is kept as a string in a token-level normal form (white-space kept only between two word characters).  `quoteN` is an uninterpreted
    function in the template (result = Tok::Q(template, [tokens of a, tokens of b, ..])): WHAT proc_macro2 builds from the template is
    dropped, THAT the result is determined by the template text and the interpolated values is kept.  A repetition `#(#x)*` of one interpolated
    list without separator is an interpolation of the list x (its tokens item by item); every other repetition fails closed.  Every occurrence, at least one."""
    applied = []
    pos = 0
    while True:
        m = mask(body)
        mm = re.compile(r"\bquote!\s*([({])").search(m, pos)
        if not mm:
            break
        open_i = mm.end() - 1
        close_i = match_close(m, open_i)            # index just after the closing bracket
        inner = body[open_i + 1:close_i - 1]
        if re.search(r"#\s*\(", re.sub(r"#\(\s*#[A-Za-z_][A-Za-z0-9_]*\s*\)\*", "", inner)):
            raise LostAnchor("rule D19: quote! template with a repetition other than `#(#x)*` (one interpolated list, no separator)")
        args = []
        for a in re.findall(r"#([A-Za-z_][A-Za-z0-9_]*)", inner):
            if a not in args:
                args.append(a)
        # interpolations are named by position (#0, #1, ..: order of first appearance), so that renaming a local is not a change of the template
        tpl = _norm_tokens(re.sub(r"#([A-Za-z_][A-Za-z0-9_]*)", lambda m_: "#" + str(args.index(m_.group(1))), inner))
        new = f"quote{len(args)}({_rust_str(tpl)}" + "".join(f", &{a}" for a in args) + ")"
        applied.append(("D19", re.sub(r"\s+", " ", body[mm.start():close_i])[:160], new[:200]))
        body = body[:mm.start()] + new + body[close_i:]
        pos = mm.start() + len(new)
    if not applied:
        raise LostAnchor("rule D19: no quote! found")
    return body, applied


def rule_D20(body):
    """D20 (format! as a function of its template and its arguments): `format!("TEMPLATE")` whose arguments are all written inline
    (`{ident}`) is written `formatN("TEMPLATE", &a, &b, ..)`; `formatN` is uninterpreted in the template (the text it returns is
    fmt_text(template, [a, b, ..])).  The rendered characters are dropped; that the text is determined by the template and the values
    is kept.  A format! with positional arguments or format specifications is not supported (fail closed).  Every occurrence, at
    least one.  (Rule D2, which drops the text of error messages, is applied first where both are listed.)"""
    applied = []
    pos = 0
    while True:
        m = mask(body)
        mm = re.compile(r"\bformat!\s*\(").search(m, pos)
        if not mm:
            break
        open_i = mm.end() - 1
        close_i = match_close(m, open_i)
        inner = body[open_i + 1:close_i - 1].strip()
        lit = re.fullmatch(r'"((?:[^"\\]|\\.)*)"', inner, re.S)
        if not lit:
            raise LostAnchor("rule D20: format! with arguments after the template (or a non-literal template)")
        tpl = lit.group(1)
        holes = re.findall(r"\{([^{}]*)\}", tpl.replace("{{", "").replace("}}", ""))
        if any(not re.fullmatch(r"[A-Za-z_][A-Za-z0-9_]*", h) for h in holes):
            raise LostAnchor("rule D20: format! hole that is not a plain inline identifier")
        uniq = []
        for h in holes:
            if h not in uniq:
                uniq.append(h)
        tpl_pos = re.sub(r"\{([A-Za-z_][A-Za-z0-9_]*)\}", lambda m_: "{" + str(uniq.index(m_.group(1))) + "}", tpl)   # holes named by position
        new = f'format{len(uniq)}("{tpl_pos}"' + "".join(f", &{a}" for a in uniq) + ")"
        applied.append(("D20", re.sub(r"\s+", " ", body[mm.start():close_i])[:160], new[:200]))
        body = body[:mm.start()] + new + body[close_i:]
        pos = mm.start() + len(new)
    if not applied:
        raise LostAnchor("rule D20: no format! found")
    return body, applied


def rule_D21(body):
    """D21: `RECV.iter().enumerate().map(|(i, x)| { BODY }).collect::<Result<Vec<_>, _>>()?` is written as
    `({ let mut collected = Vec::new(); let mut i: usize = 0; for x in RECV.iter() { collected.push(({ BODY })?); i = i + 1; } collected })` —
    Enumerate is a counter from 0, Map applies the closure in order, and collecting into `Result<Vec<_>, _>` stops at the first `Err`
    (the closure is not called again) which the trailing `?` returns: the loop evaluates BODY for the same items in the same order and
    returns the same first error.  RECV a plain path; BODY a block without return/break/continue/? and without assignment to the
    counter; exactly one occurrence.  With ghost scaffolding as in D15s (iterator `it_collect`, anchors /*INV:collect*/ /*STEP:collect*/)."""
    m = mask(body)
    hits = list(re.finditer(r"([A-Za-z_][A-Za-z0-9_]*(?:\s*\.\s*[A-Za-z_0-9]+)*)\s*\.iter\(\)\s*\.enumerate\(\)\s*\.map\(\s*\|\s*\(\s*([A-Za-z_][A-Za-z0-9_]*)\s*,\s*([A-Za-z_][A-Za-z0-9_]*)\s*\)\s*\|\s*\{", m))
    if len(hits) != 1:
        raise LostAnchor(f"rule D21: `.iter().enumerate().map(|(i, x)| {{` matched {len(hits)} times")
    mm = hits[0]
    open_brace = mm.end() - 1
    close_brace = match_close(m, open_brace)
    tail = re.match(r"\s*\)\s*\.collect::<Result<Vec<_>,\s*_>>\(\)\s*\?", m[close_brace:])
    if not tail:
        raise LostAnchor("rule D21: the closure is not directly followed by `).collect::<Result<Vec<_>, _>>()?`")
    blk = m[open_brace:close_brace]
    recv, idx, var = re.sub(r"\s+", "", mm.group(1)), mm.group(2), mm.group(3)
    if re.search(r"\breturn\b|\bbreak\b|\bcontinue\b|\?", blk) or re.search(r"\b" + idx + r"\s*(\+|-|\*)?=[^=]", blk):
        raise LostAnchor("rule D21: closure contains return/break/continue/? or assigns the counter")
    if re.search(r"\bcollected\b", m):
        raise LostAnchor("rule D21: the name `collected` is already in use")
    new = (f"({{ let mut collected = Vec::new(); let mut {idx}: usize = 0; let ghost seq_collect = {recv}@; for {var} in it_collect: {recv}.iter() invariant it_collect.seq().len() == seq_collect.len(), "
           f"forall|i_: int| 0 <= i_ < it_collect.seq().len() ==> *(#[trigger] it_collect.seq()[i_]) == seq_collect[i_], {idx} == it_collect.index@, /*INV:collect*/ "
           f"{{ /*STEP:collect*/ collected.push((" + body[open_brace:close_brace] + f")?); {idx} = {idx} + 1; }} collected }})")
    end = close_brace + tail.end()
    return body[:mm.start()] + new + body[end:], [("D21", re.sub(r"\s+", " ", body[mm.start():open_brace + 1])[:140] + " .. }).collect::<Result<Vec<_>, _>>()?", "{ let mut collected = Vec::new(); let mut i: usize = 0; for x in RECV.iter() { collected.push(({ .. })?); i = i + 1; } collected }")]


def rule_D22(body):
    """D22: `for x in RECV.chunks(N) { BODY }` is written as
    `{ let mut chunk_start: usize = 0; while chunk_start < RECV.len() { let chunk_end: usize = if RECV.len() - chunk_start < N { RECV.len() } else { chunk_start + N };
       let x = vstd::slice::slice_subrange(RECV, chunk_start, chunk_end); BODY chunk_start = chunk_end; } }` — the definition of `<[T]>::chunks`
    (consecutive non-overlapping sub-slices of N items starting at the beginning, the last one shorter when the length is not a multiple of
    N; nothing for an empty slice).  RECV a plain identifier (a slice), N an integer literal >= 1; BODY may `return` (it leaves the function
    either way) but must not `break` / `continue`; exactly one occurrence.  Ghost anchors /*INV:chunks*/ and /*STEP:chunks*/."""
    m = mask(body)
    hits = list(re.finditer(r"for\s+([A-Za-z_][A-Za-z0-9_]*)\s+in\s+([A-Za-z_][A-Za-z0-9_]*)\s*\.chunks\(\s*(\d+)\s*\)\s*\{", m))
    if len(hits) != 1:
        raise LostAnchor(f"rule D22: `for x in RECV.chunks(N) {{` matched {len(hits)} times")
    mm = hits[0]
    var, recv, n = mm.group(1), mm.group(2), int(mm.group(3))
    if n < 1:
        raise LostAnchor("rule D22: chunk size 0")
    open_brace = mm.end() - 1
    close = match_close(m, open_brace)
    blk = m[open_brace:close]
    if re.search(r"\bbreak\b|\bcontinue\b", blk) or re.search(r"\bchunk_start\b|\bchunk_end\b", m):
        raise LostAnchor("rule D22: loop body contains break/continue, or the names chunk_start / chunk_end are in use")
    inner = body[open_brace + 1:close - 1]
    new = (f"{{ let mut chunk_start: usize = 0; while chunk_start < {recv}.len() invariant chunk_start <= {recv}@.len(), /*INV:chunks*/ decreases {recv}@.len() - chunk_start "
           f"{{ let chunk_end: usize = if {recv}.len() - chunk_start < {n} {{ {recv}.len() }} else {{ chunk_start + {n} }}; "
           f"let {var} = vstd::slice::slice_subrange({recv}, chunk_start, chunk_end); /*STEP:chunks*/ " + inner + " chunk_start = chunk_end; } }")
    return body[:mm.start()] + new + body[close:], [("D22", re.sub(r"\s+", " ", body[mm.start():open_brace + 1]) + " .. }", f"while chunk_start < {recv}.len() {{ let {var} = {recv}[chunk_start..min(chunk_start + {n}, len)]; .. chunk_start = chunk_end; }}")]


def rule_D23(body):
    """D23: `RECV.iter().enumerate().fold(INIT, |acc, (i, x)| BODY)` is written as
    `({ let mut acc = INIT; let mut i: usize = 0; for x in it_efold: RECV.iter() { acc = BODY; i = i + 1; } acc })` — Iterator::fold over Enumerate
    (counter from 0).  RECV a plain identifier; BODY without return/break/continue/? and without assignment to the counter; exactly one
    occurrence.  Ghost anchors /*INV:efold*/ /*STEP:efold*/; the counter is tied to the ghost iterator (`i == it_efold.index@`)."""
    m = mask(body)
    hits = list(re.finditer(r"([A-Za-z_][A-Za-z0-9_]*)\s*\.iter\(\)\s*\.enumerate\(\)\s*\.fold\(", m))
    if len(hits) != 1:
        raise LostAnchor(f"rule D23: `.iter().enumerate().fold(` matched {len(hits)} times")
    mm = hits[0]
    call_open = mm.end() - 1
    call_close = match_close(m, call_open) - 1
    inner_m, inner = m[call_open + 1:call_close], body[call_open + 1:call_close]
    d, cut = 0, None
    for i, ch in enumerate(inner_m):
        if ch in "([{":
            d += 1
        elif ch in ")]}":
            d -= 1
        elif ch == "," and d == 0:
            cut = i
            break
    if cut is None:
        raise LostAnchor("rule D23: fold without initial value")
    init = inner[:cut].strip()
    cm = re.match(r"\s*\|\s*([A-Za-z_][A-Za-z0-9_]*)\s*,\s*\(\s*([A-Za-z_][A-Za-z0-9_]*)\s*,\s*([A-Za-z_][A-Za-z0-9_]*)\s*\)\s*\|\s*", inner_m[cut + 1:])
    if not cm:
        raise LostAnchor("rule D23: fold closure is not `|acc, (i, x)| ..`")
    acc, idx, var = cm.groups()
    cbody = inner[cut + 1 + cm.end():].strip()
    if cbody.endswith(","):
        cbody = cbody[:-1].rstrip()
    mc = mask(cbody)
    if re.search(r"\breturn\b|\bbreak\b|\bcontinue\b|\?", mc) or re.search(r"\b" + idx + r"\s*(\+|-|\*)?=[^=]", mc):
        raise LostAnchor("rule D23: fold closure contains return/break/continue/? or assigns the counter")
    recv = mm.group(1)
    new = (f"({{ let mut {acc} = {init}; let mut {idx}: usize = 0; let ghost seq_efold = {recv}@; for {var} in it_efold: {recv}.iter() invariant it_efold.seq().len() == seq_efold.len(), "
           f"forall|i_: int| 0 <= i_ < it_efold.seq().len() ==> *(#[trigger] it_efold.seq()[i_]) == seq_efold[i_], {idx} == it_efold.index@, /*INV:efold*/ "
           f"{{ /*STEP:efold*/ {acc} = {cbody}; {idx} = {idx} + 1; }} {acc} }})")
    return body[:mm.start()] + new + body[call_close + 1:], [("D23", re.sub(r"\s+", " ", body[mm.start():call_close + 1])[:160], f"{{ let mut {acc} = {init}; let mut {idx} = 0; for {var} in {recv}.iter() {{ {acc} = ..; {idx} = {idx} + 1; }} {acc} }}")]


def _split_top_commas(masked, text):
    """split `text` at the top-level commas of its masked form"""
    parts, d, last = [], 0, 0
    for i, ch in enumerate(masked):
        if ch in "([{":
            d += 1
        elif ch in ")]}":
            d -= 1
        elif ch == "," and d == 0:
            parts.append(text[last:i])
            last = i + 1
    parts.append(text[last:])
    return parts


def rule_D24(body):
    """D24: `RECV.iter().enumerate().try_fold(INIT, |mut acc, (i, x)| { BODY })` in TAIL position of the function is written as
    `({ let mut acc = INIT; let mut i: usize = 0; for x in RECV.iter() { match ({ BODY }) { Ok(next_) => { acc = next_; } Err(e_) => { return Err(e_); } } i = i + 1; } Ok(acc) })`
    — Iterator::try_fold over Enumerate for a closure that returns a Result: the closure is applied to the accumulator and each (counter, item)
    in order, the first `Err` ends the iteration and is the value of the expression (here: of the function, since the expression is its
    tail), otherwise `Ok` of the last accumulator.  RECV a plain path; BODY a block without return/break/continue/? and without
    assignment to the counter; exactly one occurrence; nothing but closing brackets may follow the call (fail closed).  Ghost anchors
    /*INV:tfold*/ /*STEP:tfold*/; the counter is tied to the ghost iterator (`i == it_tfold.index@`)."""
    m = mask(body)
    hits = list(re.finditer(r"([A-Za-z_][A-Za-z0-9_]*(?:\s*\.\s*[A-Za-z_0-9]+)*)\s*\.iter\(\)\s*\.enumerate\(\)\s*\.try_fold\(", m))
    if len(hits) != 1:
        raise LostAnchor(f"rule D24: `.iter().enumerate().try_fold(` matched {len(hits)} times")
    mm = hits[0]
    call_open = mm.end() - 1
    call_close = match_close(m, call_open) - 1
    if re.sub(r"[\s})]", "", m[call_close + 1:]) != "":
        raise LostAnchor("rule D24: the try_fold expression is not the tail of the function")
    inner_m, inner = m[call_open + 1:call_close], body[call_open + 1:call_close]
    parts = _split_top_commas(inner_m, inner)
    parts_m = _split_top_commas(inner_m, inner_m)
    if len(parts) >= 3 and parts[-1].strip() == "":
        parts, parts_m = parts[:-1], parts_m[:-1]
    if len(parts) < 2:
        raise LostAnchor("rule D24: try_fold without initial value")
    init = parts[0].strip()
    rest, rest_m = ",".join(parts[1:]), ",".join(parts_m[1:])
    cm = re.match(r"\s*\|\s*mut\s+([A-Za-z_][A-Za-z0-9_]*)\s*,\s*\(\s*([A-Za-z_][A-Za-z0-9_]*)\s*,\s*([A-Za-z_][A-Za-z0-9_]*)\s*\)\s*\|\s*(?=\{)", rest_m)
    if not cm:
        raise LostAnchor("rule D24: try_fold closure is not `|mut acc, (i, x)| { .. }`")
    acc, idx, var = cm.groups()
    cbody, cbody_m = rest[cm.end():].rstrip(), rest_m[cm.end():].rstrip()
    if match_close(cbody_m, 0) != len(cbody_m):
        raise LostAnchor("rule D24: closure block is followed by something")
    if re.search(r"\breturn\b|\bbreak\b|\bcontinue\b|\?", cbody_m) or re.search(r"\b" + idx + r"\s*(\+|-|\*)?=[^=]", cbody_m):
        raise LostAnchor("rule D24: try_fold closure contains return/break/continue/? or assigns the counter")
    if re.search(r"\bnext_\b|\be_\b", m):
        raise LostAnchor("rule D24: the names next_ / e_ are already in use")
    recv = re.sub(r"\s+", "", mm.group(1))
    new = (f"({{ let mut {acc} = {init}; let mut {idx}: usize = 0; let ghost seq_tfold = {recv}@; for {var} in it_tfold: {recv}.iter() invariant it_tfold.seq().len() == seq_tfold.len(), "
           f"forall|i_: int| 0 <= i_ < it_tfold.seq().len() ==> *(#[trigger] it_tfold.seq()[i_]) == seq_tfold[i_], {idx} == it_tfold.index@, /*INV:tfold*/ "
           f"{{ /*STEP:tfold*/ match (" + cbody + f") {{ Ok(next_) => {{ {acc} = next_; }} Err(e_) => {{ return Err(e_); }} }} /*NEXT:tfold*/ {idx} = {idx} + 1; }} Ok({acc}) }})")
    return body[:mm.start()] + new + body[call_close + 1:], [("D24", re.sub(r"\s+", " ", body[mm.start():call_open + 1])[:140] + f"{init}, |mut {acc}, ({idx}, {var})| {{ .. }})",
                                                                 f"{{ let mut {acc} = {init}; let mut {idx} = 0; for {var} in {recv}.iter() {{ match ({{ .. }}) {{ Ok(n) => {acc} = n, Err(e) => return Err(e) }} {idx} = {idx} + 1; }} Ok({acc}) }}")]


def rule_D25(body):
    """D25: a chain of Result combinators `R.and_then(|P1| X.map(|P2| E2)).map(|P3| B3)` is written as the matches that define them
    (core::result: `and_then(f)` = `match self { Ok(t) => f(t), Err(e) => Err(e) }`, `map(f)` = `match self { Ok(t) => Ok(f(t)), Err(e) => Err(e) }`):
    `match R { Ok(P1) => match (match X { Ok(P2) => Ok(E2), Err(e1_) => Err(e1_) }) { Ok(P3) => Ok(B3), Err(e2_) => Err(e2_) }, Err(e3_) => Err(e3_) }`.
    R is the call expression in front of `.and_then` (from the start of its statement), X a plain identifier; the closure bodies stay
    verbatim (no return/break/continue/?); exactly one occurrence."""
    m = mask(body)
    hits = list(re.finditer(r"\.and_then\(\s*\|", m))
    if len(hits) != 1:
        raise LostAnchor(f"rule D25: `.and_then(|` matched {len(hits)} times")
    h = hits[0]
    # receiver: back to the start of the statement / block
    d, k = 0, h.start() - 1
    while k >= 0:
        ch = m[k]
        if ch in ")]}":
            d += 1
        elif ch in "([{":
            if d == 0:
                break
            d -= 1
        elif ch == ";" and d == 0:
            break
        k -= 1
    recv = body[k + 1:h.start()].strip()
    recv_start = k + 1 + (len(body[k + 1:h.start()]) - len(body[k + 1:h.start()].lstrip()))
    if not re.match(r"^[A-Za-z_]", recv) or re.search(r"\blet\b|=[^=]", mask(recv)):
        raise LostAnchor("rule D25: receiver of and_then is not a plain call expression at the start of a statement")
    a_open = m.index("(", h.start())
    a_close = match_close(m, a_open) - 1
    a_in, a_in_m = body[a_open + 1:a_close], m[a_open + 1:a_close]
    c1 = re.match(r"\s*\|([^|]*)\|\s*", a_in_m)
    p1 = a_in[c1.start(1):c1.end(1)].strip()
    b1, b1_m = a_in[c1.end():].strip(), a_in_m[c1.end():].strip()
    if b1_m.startswith("{") and match_close(b1_m, 0) == len(b1_m):
        b1, b1_m = b1[1:-1].strip(), b1_m[1:-1].strip()
    x = re.match(r"([A-Za-z_][A-Za-z0-9_]*)\s*\.map\(\s*\|([^|]*)\|\s*", b1_m)
    if not x or match_close(b1_m, b1_m.index("(", x.end(1))) != len(b1_m):
        raise LostAnchor("rule D25: the closure of and_then is not `X.map(|p| E)`")
    xname, p2 = x.group(1), b1[x.start(2):x.end(2)].strip()
    e2 = b1[x.end():-1].strip()
    tail = re.match(r"\s*\.map\(\s*\|", m[a_close + 1:])
    if not tail:
        raise LostAnchor("rule D25: `.and_then(..)` is not directly followed by `.map(|`")
    m_open = m.index("(", a_close + 1)
    m_close = match_close(m, m_open) - 1
    m_in, m_in_m = body[m_open + 1:m_close], m[m_open + 1:m_close]
    c3 = re.match(r"\s*\|([^|]*)\|\s*", m_in_m)
    p3 = m_in[c3.start(1):c3.end(1)].strip()
    b3 = m_in[c3.end():].strip()
    for blk in (mask(e2), mask(b3)):
        if re.search(r"\breturn\b|\bbreak\b|\bcontinue\b|\?", blk):
            raise LostAnchor("rule D25: a closure contains return/break/continue/?")
    if re.search(r"\be[123]_\b", m):
        raise LostAnchor("rule D25: the names e1_ / e2_ / e3_ are already in use")
    new = (f"match {recv} {{ Ok({p1}) => match (match {xname} {{ Ok({p2}) => Ok({e2}), Err(e1_) => Err(e1_) }}) {{ Ok({p3}) => Ok({b3}), Err(e2_) => Err(e2_) }}, Err(e3_) => Err(e3_) }}")
    return body[:recv_start] + new + body[m_close + 1:], [("D25", re.sub(r"\s+", " ", recv)[:80] + f".and_then(|{p1}| {xname}.map(|{p2}| ..)).map(|{p3}| {{ .. }})",
                                                           f"match R {{ Ok({p1}) => match (match {xname} {{ Ok({p2}) => Ok(..), Err(e) => Err(e) }}) {{ Ok({p3}) => Ok({{ .. }}), Err(e) => Err(e) }}, Err(e) => Err(e) }}")]


def rule_D5b(body):
    """D5 (closure body): `.map(|x| EXPR)` with EXPR not a block is written `.map(|x| { EXPR })`, so that a ghost
    signature can be attached to the closure; same value.  Every occurrence, at least one."""
    applied, pos = [], 0
    while True:
        m = mask(body)
        mm = re.compile(r"\.map\(\s*\|\s*([A-Za-z_][A-Za-z0-9_]*)\s*\|\s*(?=[^\s{])").search(m, pos)
        if not mm:
            break
        call_open = m.index("(", mm.start())
        call_close = match_close(m, call_open) - 1          # index of the matching `)`
        expr = body[mm.end():call_close]
        body = body[:mm.end()] + "{ " + expr.rstrip() + " }" + body[call_close:]
        applied.append(("D5", f".map(|{mm.group(1)}| <expr>)", f".map(|{mm.group(1)}| {{ <expr> }})"))
        pos = mm.end()
    if not applied:
        raise LostAnchor("rule D5b: no `.map(|x| <expr>)` closure found")
    return body, applied


def rule_D5m(body):
    """D5 for the comparison closures handed to compare_/union_optional_asn1values: `|a, b| a.min(b, char_set)` (with or
    without braces) gets typed parameters and a ghost signature stating ASN1Value::min / max on integers; the executable
    expression is unchanged.  Applied to every such closure (at least one)."""
    pat = re.compile(r"\|(\w+),\s*(\w+)\|\s*(\{?)\s*\1\.(min|max)\(\2,\s*char_set\)\s*(\}?)")
    applied = []

    def sub(mm):
        a, b2, ob, which, cb = mm.groups()
        if bool(ob) != bool(cb):
            raise LostAnchor("rule D5m: unbalanced closure braces")
        new = (f"|{a}: &ASN1Value, {b2}: &ASN1Value| -> (k: Result<ASN1Value, GrammarError>) ensures ({a} is Integer && {b2} is Integer) ==> "
               f"k == Ok::<ASN1Value, GrammarError>(ASN1Value::Integer(i{which}({a}->Integer_0, {b2}->Integer_0))) {{ {a}.{which}({b2}, char_set) }}")
        applied.append(("D5", re.sub(r"\s+", " ", mm.group(0)), new))
        return new
    if mask(body) != body and not pat.search(mask(body)):
        pass
    new_body = pat.sub(sub, body)
    if not applied:
        raise LostAnchor("rule D5m: no `|a, b| a.min/max(b, char_set)` closure found")
    return new_body, applied


def rule_D9(body):
    """D9: `matches!(..) | matches!(..)` (non-short-circuit OR of two side-effect-free pattern tests, which Verus
    does not support) is spelled `matches!(..) || matches!(..)`; same value.  Must match exactly once."""
    m = mask(body)
    hits = [mm for mm in re.finditer(r"\)(\s*)\|(\s*)matches!\(", m)]
    hits = [h for h in hits if m[:h.start() + 1].rstrip().endswith(")") and "matches!(" in m[:h.start()]]
    if len(hits) != 1:
        raise LostAnchor(f"rule D9: `matches!(..) | matches!(..)` matched {len(hits)} times")
    h = hits[0]
    new = body[:h.start()] + ")" + h.group(1) + "||" + h.group(2) + "matches!(" + body[h.end():]
    return new, [("D9", "matches!(..) | matches!(..)", "matches!(..) || matches!(..)")]


def rule_D4t(body):
    """D4 (calls): a fully qualified call through the trait of a re-headed impl,
    `<Option<&SubtypeElements> as TryInto<PerVisibleRangeConstraints>>::try_into(x)`, is spelled as a call of the
    re-headed function `range_from_element(x)`.  Every occurrence, at least one."""
    pat = re.compile(r"<Option<&SubtypeElements>\s+as\s+TryInto<\s*PerVisibleRangeConstraints,?\s*>>::try_into\(")
    n = len(pat.findall(mask(body)))
    if n == 0:
        raise LostAnchor("rule D4t: no qualified TryInto call found")
    return pat.sub("range_from_element(", body), [("D4", "<Option<&SubtypeElements> as TryInto<PerVisibleRangeConstraints>>::try_into(", "range_from_element(")] * n


RULES = {"D2": rule_D2, "D5": rule_D5, "D5c": rule_D5c, "D5m": rule_D5m, "D9": rule_D9, "D4t": rule_D4t, "D10": rule_D10, "D5b": rule_D5b, "D12": rule_D12, "D13": rule_D13, "D14": rule_D14, "D15": rule_D15, "D15s": rule_D15s, "D12s": rule_D12s, "D12m": rule_D12m, "D17": rule_D17, "D18": rule_D18, "D19": rule_D19, "D20": rule_D20, "D21": rule_D21, "D22": rule_D22, "D23": rule_D23, "D24": rule_D24, "D25": rule_D25}


class FnUnit:
    def __init__(self, relpath, impl_head, name):
        self.relpath, self.impl_head, self.name = relpath, impl_head, name
        self.id = None
        self.rename = self.selftype = self.vis = self.ret = None
        self.rules, self.replaces, self.inserts, self.contract = [], [], [], []
        self.cutarms = []
        self.cutfirst = False
        self.splitarms = []
        self.block = False
        self.from_ = self.to = self.wrap = self.tail = None


def parse_template(text):
    """-> list of ('text', str) | ('type', relpath, head) | ('opaque', name, relpath) | ('fn', FnUnit)"""
    # `//@@ include <file>`: the lines of contracts/<file> (specification text shared between units) stand in place of the directive
    lines = []
    for ln in text.split("\n"):
        if ln.strip().startswith("//@@ include "):
            inc = os.path.join(os.path.dirname(os.path.abspath(__file__)), "..", "contracts", ln.strip()[len("//@@ include "):].strip())
            lines.extend(open(inc).read().rstrip("\n").split("\n"))
        else:
            lines.append(ln)
    out, i = [], 0
    buf = []

    def flush():
        if buf:
            out.append(("text", "\n".join(buf)))
            buf.clear()

    while i < len(lines):
        ln = lines[i]
        s = ln.strip()
        if not s.startswith("//@@"):
            buf.append(ln)
            i += 1
            continue
        d = s[4:].strip()
        if d.startswith("type "):
            flush()
            relpath, head = [x.strip() for x in d[5:].split("::", 1)]
            out.append(("type", relpath, head, []))
            i += 1
        elif d.startswith("typereplace "):
            mm = re.match(r"typereplace\s+(\S+)\s+`(.*)`\s*=>\s*`(.*)`$", d)
            if not mm or not out or out[-1][0] != "type":
                raise TemplateError(f"bad typereplace (must follow a type directive): {d}")
            out[-1][3].append(mm.groups())
            i += 1
        elif d.startswith("opaque "):
            flush()
            name, relpath = [x.strip() for x in d[7:].split("::", 1)]
            out.append(("opaque", name, relpath))
            i += 1
        elif d.startswith("fn ") or d.startswith("block "):
            flush()
            is_block = d.startswith("block ")
            parts = [x.strip() for x in d[(6 if is_block else 3):].split(" :: ")]
            if len(parts) != 3:
                raise TemplateError(f"bad fn directive: {d}")
            fu = FnUnit(parts[0], None if parts[1] == "-" else parts[1], parts[2])
            fu.block = is_block
            i += 1
            while True:
                if i >= len(lines):
                    raise TemplateError("unterminated fn directive")
                s = lines[i].strip()
                if not s.startswith("//@@"):
                    raise TemplateError(f"unexpected line inside fn directive: {lines[i]}")
                d = s[4:].strip()
                i += 1
                if d == "end":
                    break
                key, _, rest = d.partition(" ")
                rest = rest.strip()
                if key in ("id", "rename", "selftype", "vis", "ret"):
                    setattr(fu, key, rest)
                elif key in ("from", "to", "wrap", "tail"):
                    mm = re.match(r"`(.*)`$", rest)
                    if not mm:
                        raise TemplateError(f"bad {key}: {rest}")
                    setattr(fu, "from_" if key == "from" else key, mm.group(1).replace("\\n", "\n"))
                elif key == "rule":
                    fu.rules.append(rest)
                elif key in ("replace", "replaceall"):
                    mm = re.match(r"(\S+)\s+`(.*)`\s*=>\s*`(.*)`$", rest)
                    if not mm:
                        raise TemplateError(f"bad replace: {rest}")
                    g = mm.groups()
                    fu.replaces.append((g[0], g[1].replace("\\n", "\n"), g[2].replace("\\n", "\n"), key == "replaceall"))   # `\n` stands for a line break
                elif key == "splitarm":
                    mm = re.match(r"(?:#(\d+)\s+)?`(.*)`$", rest)
                    if not mm:
                        raise TemplateError(f"bad splitarm: {rest}")
                    fu.splitarms.append((int(mm.group(1)) if mm.group(1) else None, mm.group(2)))
                elif key == "cutfirst":
                    fu.cutfirst = True
                elif key == "cutarm":
                    mm = re.match(r"(?:#(\d+)\s+)?`(.*)`\s*=>\s*`(.*)`$", rest)
                    if not mm:
                        raise TemplateError(f"bad cutarm: {rest}")
                    fu.cutarms.append((int(mm.group(1)) if mm.group(1) else None, mm.group(2), mm.group(3)))
                elif key == "insert":
                    mm = re.match(r"(before|after)\s+(?:#(\d+)\s+)?`(.*)`\s*(::|<<)\s*(.*)$", rest)
                    if not mm:
                        raise TemplateError(f"bad insert: {rest}")
                    pos, ordinal, anchor, kind, tail = mm.groups()
                    anchor = anchor.replace("\\n", "\n")   # `\n` in an anchor stands for a line break
                    if kind == "<<":
                        block = []
                        while lines[i].strip() != "//@@   >>" and lines[i].strip() != "//@@ >>":
                            block.append(lines[i])
                            i += 1
                        i += 1
                        tail = "\n" + "\n".join(block) + "\n"
                    else:
                        tail = tail + " "
                    fu.inserts.append((pos, int(ordinal) if ordinal else None, anchor, tail))
                elif key == "contract":
                    while lines[i].strip() not in ("//@@   endcontract", "//@@ endcontract"):
                        fu.contract.append(lines[i])
                        i += 1
                    i += 1
                else:
                    raise TemplateError(f"unknown fn sub-directive: {d}")
            if not fu.id:
                raise TemplateError(f"fn {fu.name}: missing id")
            out.append(("fn", fu))
        else:
            raise TemplateError(f"unknown directive: {d}")
    flush()
    return out


def find_all(hay, needle):
    res, k = [], hay.find(needle)
    while k >= 0:
        res.append(k)
        k = hay.find(needle, k + 1)
    return res


class BuiltUnit:
    """Result of building one template against the current /repo."""

    def __init__(self):
        self.text = ""
        self.fns = []          # dicts: id, name, span(Span), gen_start, gen_end, drops, ghost
        self.types = []        # dicts: head, span, dropped_attrs
        self.opaque = []       # names
        self.tags = []         # (line_no, name)
        self.diffs = []        # per fn unified diff original vs verified text


def build(template_path, repo_root):
    tpl = open(template_path).read()
    parts = parse_template(tpl)
    sources = {}

    def src(relpath):
        if relpath not in sources:
            p = os.path.join(repo_root, relpath)
            if not os.path.exists(p):
                raise LostAnchor(f"{relpath}: file missing")
            sources[relpath] = Source(relpath, open(p).read())
        return sources[relpath]

    bu = BuiltUnit()
    chunks = []

    def cur_line():
        return sum(c.count("\n") for c in chunks) + 1

    for part in parts:
        if part[0] == "text":
            chunks.append(part[1] + "\n")
        elif part[0] == "type":
            _, relpath, head, treps = part
            sp = src(relpath).find_item(head)
            text, dropped = strip_attrs(sp.text)
            for rule, old, new in treps:
                if len(find_all(text, old)) != 1:
                    raise LostAnchor(f"{sp.where()} type `{head}`: rule {rule} text `{old}` matched {len(find_all(text, old))} times")
                text = text.replace(old, new)
                dropped.append(f"{rule}: `{old}` spelled `{new}`")
            bu.types.append({"head": head, "where": sp.where(), "sha256": sp.sha256, "dropped_attrs": dropped})
            chunks.append(f"// ---- extracted verbatim from {sp.where()} (D1: {len(dropped)} attribute(s) dropped)\n{text}\n")
        elif part[0] == "opaque":
            _, name, relpath = part
            s = src(relpath)
            if not re.search(r"(?m)^\s*pub(?:\([a-z]+\))?\s+(?:struct|enum)\s+" + re.escape(name) + r"\b", s.masked):
                raise LostAnchor(f"{relpath}: opaque type `{name}` no longer declared")
            bu.opaque.append(name)
            chunks.append(f"#[verifier::external_body] pub struct {name} {{ _opaque: u8 }} // D6: {relpath}\n")
        elif part[0] == "fn":
            fu = part[1]
            sp = src(fu.relpath).find_fn(fu.impl_head, fu.name)
            sig, body = split_fn(sp.text)
            drops = []
            if fu.block:
                # rule B1: the statement block between two anchors of the function body, as a function of its free variables
                if not (fu.from_ and fu.to and fu.wrap and fu.tail is not None):
                    raise TemplateError(f"block {fu.name}: from / to / wrap / tail are required")
                hits = find_all(body, fu.from_)
                if len(hits) != 1:
                    raise LostAnchor(f"{sp.where()} fn {fu.name}: block start anchor `{fu.from_[:60]}` matched {len(hits)} times")
                b0 = hits[0]
                b1 = body.find(fu.to, b0 + len(fu.from_))
                if b1 < 0:
                    raise LostAnchor(f"{sp.where()} fn {fu.name}: block end anchor `{fu.to[:60]}` not found after the start anchor")
                b1 += len(fu.to)
                fn_sp = sp
                body_off = sp.start + len(sig)
                sp = Span(sp.path, src(fu.relpath).text, body_off + b0, body_off + b1)
                if mask(sp.text).count("{") != mask(sp.text).count("}") or mask(sp.text).count("(") != mask(sp.text).count(")"):
                    raise LostAnchor(f"{sp.where()} fn {fu.name}: the block between the anchors is not bracket-balanced")
                drops.append(("B1", f"statement block {sp.where()} of fn {fu.name} ({fn_sp.where()}); the rest of the function is not part of this obligation", fu.wrap))
                sig = fu.wrap + "\n"
                body = "{\n        " + sp.text + "\n        " + fu.tail + "\n    }"
            # --- rules on the executable text (each recorded) ---
            for ordinal, pattern in fu.splitarms:
                body, applied = split_arm(body, pattern, ordinal)
                drops += applied
            if fu.cutfirst:          # the cut arms contain constructs the textual rules would refuse (fail closed): cut them before the rules run
                for ordinal, pattern, expr in fu.cutarms:
                    body, applied = cut_arm(body, pattern, expr, ordinal)
                    drops += applied
            for r in fu.rules:
                if r not in RULES:
                    raise TemplateError(f"unknown rule {r}")
                body, applied = RULES[r](body)
                drops += applied
            if not fu.cutfirst:
                for ordinal, pattern, expr in fu.cutarms:
                    body, applied = cut_arm(body, pattern, expr, ordinal)
                    drops += applied
            whole = sig + body
            for rule, old, new, every in fu.replaces:
                hits = find_all(whole, old)
                if (len(hits) != 1 and not every) or len(hits) == 0:
                    raise LostAnchor(f"{sp.where()} fn {fu.name}: rule {rule} text `{old}` matched {len(hits)} times")
                whole = whole.replace(old, new)
                drops += [(rule, old, new)] * len(hits)
            sig, body = split_fn(whole)
            if fu.rename:
                sig2 = re.sub(r"\bfn\s+" + re.escape(fu.name) + r"\b", "fn " + fu.rename, sig, count=1)
                drops.append(("D4", f"fn {fu.name} (in `{re.sub(chr(10), ' ', fu.impl_head or '')[:80]}`)", f"fn {fu.rename}"))
                sig = sig2
            if fu.selftype:
                msig, mbody = mask(sig), mask(body)
                n_self = len(re.findall(r"\bSelf\b", msig)) + len(re.findall(r"\bSelf\b", mbody))

                def sub_self(txt, m):
                    res, last = [], 0
                    for mm in re.finditer(r"\bSelf\b", m):
                        res.append(txt[last:mm.start()])
                        res.append(fu.selftype)
                        last = mm.end()
                    res.append(txt[last:])
                    return "".join(res)
                sig, body = sub_self(sig, msig), sub_self(body, mbody)
                drops.append(("D4", f"Self x{n_self}", fu.selftype))
            if fu.vis is not None:
                sig = re.sub(r"^(pub(\([a-z:_ ]+\))?\s+)?", (fu.vis + " ") if fu.vis else "", sig, count=1)
            executable = sig + body   # what Verus compiles, before ghost text is added
            if fu.ret:
                m = mask(sig)
                k = m.rfind("->")
                if k < 0:
                    raise LostAnchor(f"{sp.where()} fn {fu.name}: no return type for `ret`")
                rtype = sig[k + 2:].strip()
                sig = sig[:k] + f"-> ({fu.ret}: {rtype})\n"
            # --- ghost insertions (specification only) ---
            ghost = []
            for pos, ordinal, anchor, gtext in fu.inserts:
                if anchor.startswith("/*INV:"):
                    pass    # inside an invariant block (placed there by a scaffolding rule): whatever is inserted is a spec expression
                elif not (gtext.strip().startswith(GHOST_PREFIXES) or re.fullmatch(r"it\d*:", gtext.strip())):
                    raise TemplateError(f"fn {fu.name}: ghost insertion must start with one of {GHOST_PREFIXES}: {gtext.strip()[:40]}")
                hits = find_all(body, anchor)
                if ordinal is None:
                    if len(hits) != 1:
                        raise LostAnchor(f"{sp.where()} fn {fu.name}: ghost anchor `{anchor}` matched {len(hits)} times")
                    k = hits[0]
                else:
                    if ordinal > len(hits) or ordinal < 1:
                        raise LostAnchor(f"{sp.where()} fn {fu.name}: ghost anchor `{anchor}` #{ordinal} of {len(hits)}")
                    k = hits[ordinal - 1]
                if pos == "after":
                    k += len(anchor)
                body = body[:k] + gtext + body[k:]
                ghost.append((pos, anchor, gtext.strip()[:80]))
            contract = "\n".join(fu.contract)
            start = cur_line()
            header = f"// ---- extracted from {sp.where()} sha256={sp.sha256[:16]} ; contract + ghost text spliced in, drops: {sorted(set(d[0] for d in drops)) or 'none'}\n"
            text = header + sig.rstrip() + "\n" + contract + "\n" + body + "\n"
            chunks.append(text)
            end = cur_line() - 1
            diff = "".join(difflib.unified_diff(sp.text.splitlines(True), executable.splitlines(True), f"/repo/{sp.where()}", "verified-executable-text", n=0))
            bu.fns.append({"id": fu.id, "name": fu.rename or fu.name, "orig_name": fu.name, "impl": fu.impl_head, "where": sp.where(), "sha256": sp.sha256,
                           "gen_start": start, "gen_end": end, "drops": drops, "ghost": ghost, "diff": diff, "span_text": sp.text})
    bu.text = "".join(chunks)
    for n, ln in enumerate(bu.text.split("\n"), 1):
        mm = re.search(r"//#\s*(\S+)", ln)
        if mm:
            bu.tags.append((n, mm.group(1)))
    return bu
