"""Run Verus on a built unit and attribute every diagnostic to a named obligation."""
import json
import os
import re
import subprocess
import time

from .rustscan import LostAnchor
from .unit import build, TemplateError

VERUS = "verus"

# messages that are verdicts about the program against its contract (semantic)
SEMANTIC = (
    "postcondition not satisfied", "precondition not satisfied", "assertion failed", "invariant not satisfied",
    "possible arithmetic underflow/overflow", "possible division by zero", "decreases not satisfied",
    "possible bit shift underflow/overflow", "unreachable!() / unimplemented!() / panic", "cannot show invariant holds",
    "loop invariant not satisfied", "index out of bounds", "possible borrow error", "assert_by_compute failed",
    "failed precondition", "termination", "could not prove termination", "postcondition", "invariant not satisfied at end of loop body",
    "invariant not satisfied before loop", "requires not satisfied", "not all errors may have been reported",
)
IGNORED = ("aborting due to",)


class VerusResult:
    def __init__(self, unit):
        self.unit = unit
        self.status = "undecided"      # ok | failed | undecided
        self.reason = ""
        self.obligations = {}          # name -> dict(status, detail, kind, fn)
        self.fns = []
        self.types = []
        self.opaque = []
        self.trusted = []
        self.smt_ms = 0
        self.total_ms = 0
        self.wall_s = 0.0
        self.verified = 0
        self.errors = 0
        self.gen_path = ""
        self.raw_errors = []
        self.cmd = ""
        self.fn_times = {}


def tag_ranges(text, tags, fns):
    """[(lo, hi, name)] — the source lines of the clause each //# tag closes."""
    lines = text.split("\n")
    res = []
    prev = 0
    kw = re.compile(r"^\s*(ensures|requires|invariant|decreases|recommends)\b")
    for ln, name in tags:
        lo = prev + 1
        # start at the closest clause keyword line at or after `lo`, if any keyword lies in (prev, ln]
        k = ln
        found = None
        while k > prev:
            if kw.match(lines[k - 1]):
                found = k
                break
            k -= 1
        if found:
            lo = found
        res.append((lo, ln, name))
        prev = ln
    return res


def scan_trusted(text):
    """Mechanical scan for every assumption left in the generated file."""
    out = []
    all_lines = text.split("\n")
    for n, ln in enumerate(all_lines, 1):
        s = ln.strip()
        if s.startswith("//"):
            continue
        if s in ("#[verifier::external_body]", "#[verifier::exec_allows_no_decreases_clause]"):
            # the attribute stands alone: name the item it is attached to
            k = n
            while k < len(all_lines) and (not all_lines[k].strip() or all_lines[k].strip().startswith("//")):
                k += 1
            if k < len(all_lines):
                s = s + " " + all_lines[k].strip()
        if "assume_specification" in s:
            out.append(("assume_specification", n, s[:200]))
        elif "external_body" in s:
            out.append(("external_body", n, s[:200]))
        elif re.search(r"\b(assume|admit)\s*\(", s):
            out.append(("assume/admit", n, s[:200]))
        elif "exec_allows_no_decreases_clause" in s:
            out.append(("termination-not-verified", n, s[:200]))
        elif "#[verifier::external" in s or "#[verifier(external" in s:
            out.append(("external", n, s[:200]))
    return out


def proof_fns(text):
    res = []
    for n, ln in enumerate(text.split("\n"), 1):
        m = re.match(r"\s*(?:pub\s+)?(?:broadcast\s+)?proof\s+fn\s+([A-Za-z0-9_]+)", ln)
        if m:
            res.append((n, m.group(1)))
    return res


def run_unit(unit, template_path, repo_root, build_dir, mutate_text=None, suffix="", rlimit=None, threads=4):
    """Build + verify one unit.  mutate_text(text, built) may alter the generated file (vacuity twins)."""
    r = VerusResult(unit)
    t0 = time.time()
    try:
        bu = build(template_path, repo_root)
    except LostAnchor as e:
        r.reason = f"lost anchor: {e}"
        r.wall_s = time.time() - t0
        return r, None
    except TemplateError as e:
        r.reason = f"template error: {e}"
        r.wall_s = time.time() - t0
        return r, None
    text = bu.text
    if mutate_text:
        text = mutate_text(text, bu)
    os.makedirs(build_dir, exist_ok=True)
    path = os.path.join(build_dir, f"{unit}{suffix}.rs")
    with open(path, "w") as f:
        f.write(text)
    r.gen_path = path
    r.fns, r.types, r.opaque = bu.fns, bu.types, bu.opaque
    r.trusted = scan_trusted(text)
    cmd = [VERUS, os.path.basename(path), "--output-json", "--time", "--error-format=json", "--multiple-errors", "8", "--num-threads", str(threads)]
    if rlimit:
        cmd += ["--rlimit", str(rlimit)]
    r.cmd = " ".join(cmd)
    try:
        p = subprocess.run(cmd, cwd=build_dir, capture_output=True, text=True, timeout=900)
    except subprocess.TimeoutExpired:
        r.reason = "verus timed out (900 s)"
        r.wall_s = time.time() - t0
        return r, bu
    r.wall_s = time.time() - t0
    # stdout: JSON object; stderr: one JSON diagnostic per line
    try:
        js = json.loads(p.stdout[p.stdout.index("{"):])
    except Exception:
        js = None
    diags = []
    for ln in p.stderr.split("\n"):
        ln = ln.strip()
        if ln.startswith("{"):
            try:
                diags.append(json.loads(ln))
            except Exception:
                pass
    errors = [d for d in diags if d.get("level") == "error" and not any(d.get("message", "").startswith(x) for x in IGNORED)]
    r.raw_errors = errors
    if js is None:
        r.reason = "verus produced no JSON result: " + (p.stderr[-400:] or p.stdout[-400:])
        return r, bu
    vr = js.get("verification-results", {})
    r.verified, r.errors = vr.get("verified", 0), vr.get("errors", 0)
    tm = js.get("times-ms", {})
    r.total_ms = tm.get("total", 0)
    r.smt_ms = tm.get("smt", {}).get("total", 0)
    for mt in tm.get("smt", {}).get("smt-run-module-times", []):
        for fb in mt.get("function-breakdown", []):
            r.fn_times[fb["function"]] = {"ms": fb.get("time", 0), "rlimit": fb.get("rlimit", 0), "success": fb.get("success")}

    # ---- obligation set of this unit ----
    ranges = tag_ranges(text, bu.tags, bu.fns)
    for lo, hi, name in ranges:
        fn = next((f for f in bu.fns if f["gen_start"] <= hi <= f["gen_end"]), None)
        r.obligations[name] = {"status": "discharged", "kind": "contract-clause", "fn": fn["id"] if fn else None, "lines": [lo, hi], "detail": ""}
    for f in bu.fns:
        r.obligations[f["id"] + ".safety"] = {"status": "discharged", "kind": "body-safety (overflow, callee preconditions, termination, ghost hints)", "fn": f["id"], "detail": ""}
    pfs = proof_fns(text)
    for n, name in pfs:
        r.obligations["lemma." + unit + "." + name] = {"status": "discharged", "kind": "lemma", "fn": None, "detail": ""}

    if vr.get("encountered-vir-error") or (errors and r.verified == 0 and r.errors == 0):
        r.reason = "verus could not process the unit: " + "; ".join(e.get("message", "")[:200] for e in errors[:3])
        r.status = "undecided"
        for o in r.obligations.values():
            o["status"] = "undecided"
        return r, bu

    undecided = []
    lines = text.split("\n")
    for e in errors:
        msg = e.get("message", "")
        spans = e.get("spans", [])
        prim = [s for s in spans if s.get("is_primary")] or spans
        line = prim[0]["line_start"] if prim else 0
        label = (prim[0].get("label") or "") if prim else ""
        semantic = any(msg.startswith(x) or x in msg for x in SEMANTIC)
        # postcondition failures: the primary span is the failed clause; other failures: location in the body
        target = None
        for lo, hi, name in ranges:
            if lo <= line <= hi:
                target = name
                break
        if target is None:
            # a failed invariant/precondition may carry the clause as a secondary span
            for s in spans:
                for lo, hi, name in ranges:
                    if lo <= s["line_start"] <= hi and ("invariant" in msg or "precondition" in msg):
                        target = name
                        break
                if target:
                    break
        if target is None:
            fn = next((f for f in bu.fns if f["gen_start"] <= line <= f["gen_end"]), None)
            if fn:
                target = fn["id"] + ".safety"
            else:
                pf = None
                for n, name in pfs:
                    if n <= line:
                        pf = name
                target = ("lemma." + unit + "." + pf) if pf else None
        detail = f"{msg} at generated line {line}: {lines[line - 1].strip()[:160] if 0 < line <= len(lines) else ''} {('[' + label + ']') if label else ''}"
        if not semantic:
            undecided.append(detail)
            if target and target in r.obligations:
                r.obligations[target]["status"] = "undecided"
                r.obligations[target]["detail"] = detail
            continue
        if target is None or target not in r.obligations:
            undecided.append("unattributed: " + detail)
            continue
        ghost_hint = msg.startswith("assertion failed") and target.endswith(".safety")
        r.obligations[target]["status"] = "failed"
        r.obligations[target]["detail"] = detail
        r.obligations[target]["ghost_hint_only"] = ghost_hint
        r.obligations[target]["rendered"] = e.get("rendered", "")[:6000]
    failed = [n for n, o in r.obligations.items() if o["status"] == "failed"]
    if undecided and not failed:
        r.status = "undecided"
        r.reason = "; ".join(undecided[:3])
    elif failed:
        r.status = "failed"
    elif r.errors == 0 and r.verified > 0:
        r.status = "ok"
    else:
        r.status = "undecided"
        r.reason = f"verus reported {r.errors} errors / {r.verified} verified without an attributable diagnostic"
    return r, bu


def vacuity_twin(fn_id):
    """mutate_text callback: add `false` to the postconditions of one function; the twin must FAIL."""
    def mut(text, bu):
        f = next(x for x in bu.fns if x["id"] == fn_id)
        lines = text.split("\n")
        body = None
        for k in range(f["gen_start"], f["gen_end"] + 1):
            if lines[k - 1].lstrip().startswith("{"):
                body = k
                break
        if body is None:
            raise LostAnchor(f"vacuity twin: body of {fn_id} not found")
        for k in range(f["gen_start"], body):
            if re.match(r"\s*ensures\b", lines[k - 1]):
                lines[k - 1] = re.sub(r"\bensures\b", "ensures false, /* VACUITY-TWIN */", lines[k - 1], count=1)
                return "\n".join(lines)
        for k in range(f["gen_start"], body):
            if re.match(r"\s*decreases\b", lines[k - 1]):
                lines.insert(k - 1, "    ensures false, /* VACUITY-TWIN */")
                return "\n".join(lines)
        lines.insert(body - 1, "    ensures false, /* VACUITY-TWIN */")
        return "\n".join(lines)
    return mut
