"""Which contract units decide which property (see DESIGN.md §4).  Pure data."""

PROPERTIES = {
    "C06": {
        "verus": ["C06_width"],
        "kani_quick": ["k_c06_max_restrictive", "k_layout_sentinel_scalars"],
        "kani_thorough": [],
        "unverified": [
            "Integer::int_type and the three other copies of `constraints.iter().fold(Unbounded, |acc,c| c.integer_constraints().max_restrictive(acc))` (iterator fold: 4 lines of glue between two proved callees; note that it picks the most restrictive type of a serial chain even when a later constraint is extensible)",
            "tagging of literals with a width in link_with_type (validator/linking/mod.rs)",
            "literal rendering in generator/rasn/utils.rs (TokenStream)",
            "the input of the component path, i.e. the folded PER-visible range (fold_constraint_set; see C04)",
        ],
    },
}

# human-readable description of the extraction rules, repeated in every evidence file
DROP_RULES = {
    "D1": "attributes (derive / cfg_attr / default) on copied type definitions are removed",
    "D2": "argument of format!/grammar_error!/eprintln! replaced by \"\" / () — diagnostic text dropped, control flow and error kinds kept",
    "D3": "Rasn::int_type_token only: format_ident!(..) -> the &str it is built from; return type Ident -> &'static str",
    "D4": "trait-impl method re-headed as a free fn (Verus cannot put ensures on a trait impl); Self -> the concrete type",
    "D5": "closure parameter |_| -> |_u| and a ghost `-> (k: T) ensures ..` closure signature",
    "D6": "types the unit never inspects declared #[verifier::external_body] struct; every enum variant of inspected types kept",
    "S1": "return type `-> T` named `-> (r: T)` so that the contract can refer to the result",
}

COMMON_TRUSTED = [
    "Verus 0.2026.09.13 + z3 (its bundled solver) and rustc 1.98.1 front end",
    "vstd specifications of Vec::{len,push,append}, Option::{map,unwrap_or_default}, i128::{min,max}, integer From conversions",
    "Kani 0.68.0 / CBMC 6.11.0 / CaDiCaL, Kani's models of alloc (Vec, String) and of core",
    "the extraction rules D1-D6/S1 preserve the meaning of the executable text (diff printed by ./check <id> --show-diff)",
]
