"""Which contract units decide which property (see DESIGN.md §4).  Pure data."""

PROPERTIES = {
    "C06": {
        "verus": ["C06_width"],
        "kani_quick": ["k_c06_max_restrictive", "k_layout_sentinel_scalars"],
        "kani_thorough": [],
        "bounded_native": [
            {"unit": "b_c04_integer_set_expression", "functions": "TryFrom<&Constraint> for PerVisibleRangeConstraints (per_visible.rs): the extensible flag handed to Rasn::int_type_token for components",
             "bound": "same expressions as under C04, each with/without an extension marker after the element set"},
            {"unit": "b_c04_constraint_parser", "functions": "lexer::constraint::constraints -> element_set_specs, set_operation, union_mark, intersection_mark, value_range, single_value (nom combinators)",
             "bound": "expressions a | a op b | a op b op c over operands {5, -3, 0..10, MIN..7, -1..MAX}, operators spelled {|, UNION, ^, INTERSECTION, EXCEPT}, with/without trailing extension marker (exhaustive, 6510 cases); source text generated and parsed by the real parser"},
            {"unit": "b_c06_literal_width", "functions": "ASN1Value::link_with_type, arms (Integer, Integer) and (Integer, LinkedNestedValue{Integer}) (validator/linking/mod.rs) -> Integer::int_type",
             "bound": "range ends and literal from 12 width-boundary points, literal inside the range, with/without extension marker, direct or nested (exhaustive)"},
            {"unit": "b_c06_int_type_serial", "functions": "Integer::int_type (intermediate/types.rs): fold of Constraint::integer_constraints with IntegerType::max_restrictive over serially applied constraints",
             "bound": "1..=2 serial range constraints with ends from {-129,-128,0,10,255,256,65535,70000}, each with/without inner and outer extension marker, non-empty intersection (exhaustive, 14160 cases)"},
        ],
        "unverified": [
            "Integer::int_type is covered only by the bounded stand-in b_c06_int_type_serial (known finding: most restrictive wins even when another serial constraint is extensible); the five other copies of the same fold in validator/linking/mod.rs and generator/rasn/utils.rs are not under contract",
            "tagging of literals with a width in link_with_type (validator/linking/mod.rs)",
            "literal rendering in generator/rasn/utils.rs (TokenStream)",
            "the input of the component path, i.e. the folded PER-visible range (fold_constraint_set; see C04)",
        ],
    },
}

VERUS_REPLAY_KEYS = {
    "C06_width": ["C06.integer_constraints", "C06.int_type_token"],
    "C02_C05_assembly": ["C02.assembly"],
    "C02_unnesting": ["C02.needs_unnesting"],
    "C14_numbering": ["C14.assign"],
    "C07_octets_to_bits": ["C07.octet_string_to_bit_string"],
}

PROPERTIES.update({
    "C02": {
        "verus": ["C02_C05_assembly", "C02_unnesting", "C02_members"],
        "kani_quick": [], "kani_thorough": [],
        "bounded_native": [
            {"unit": "b_generate_constructed", "functions": "Backend::generate_module -> generate_tld -> generate_sequence_or_set / generate_choice -> format_sequence_or_set_members, format_choice_options, format_sequence_member, format_tag, join_annotations (generator/rasn: quote!/TokenStream code)",
             "bound": "IR built directly: module default {AUTOMATIC, IMPLICIT, EXPLICIT} x EXTENSIBILITY IMPLIED on/off x {SEQUENCE, SET, CHOICE} x 1..=3 BOOLEAN components (each OPTIONAL or not, tagged or not) x extension marker absent or at any index 0..=n, followed by a second module with its own extensibility default on the same backend (exhaustive product, 10248 cases); checks the generated token text"},
            {"unit": "b_sequence_parser", "functions": "lexer::sequence::sequence -> sequence_component / extension_group (nom combinators)",
             "bound": "0..=2 root components, optional marker, 0..=3 additions each a plain component or a [[ ]] group of 1..=2 components with/without version number (exhaustive, 471 cases); source text generated and parsed by the real parser"},
            {"unit": "b_resolve_class_reference_frame", "functions": "ASN1Type::resolve_class_reference (validator/linking/mod.rs)",
             "bound": "SEQUENCE / SET / CHOICE with 1..=3 BOOLEAN components, each untagged / IMPLICIT-tagged / EXPLICIT-tagged, extension marker absent or at any index (exhaustive)"},
            {"unit": "b_c02_component_types", "functions": "Rasn::constraints_and_type_name (component type table), format_sequence_member, format_default_methods (generator/rasn), via Backend::generate_module",
             "bound": "one component of each of 15 builtin/reference types x {SEQUENCE, SET, CHOICE, element of SEQUENCE OF} x {required, OPTIONAL, DEFAULT where a value is available} x type names {T, PDU-Header, X-info} (exhaustive, 333 cases); checks the emitted Rust type and that the default annotation names a generated function"},
            {"unit": "b_c02_recursion_marking", "functions": "ToplevelDefinition::mark_recursive -> ASN1Type::mark_recursive / ASN1Type::recurses (validator/linking/mod.rs)",
             "bound": "2..=3 mutually referencing SEQUENCE/SET/CHOICE definitions with 1..=2 components (BOOLEAN, reference, SEQUENCE OF reference), marked in the validator's order; exhaustive prefix then seeded random sample up to the evaluation limit"},
        ],
        "unverified": [
            "the left-to-right parse of component lists (nom combinators in lexer/sequence.rs, lexer/choice.rs)",
            "emission of one field/variant per member, Option<_>, default fn, Box<_>, set marker, SetOf/SequenceOf selection (generator/rasn/utils.rs, builder.rs: TokenStream code); only the hoisting decision Rasn::needs_unnesting is under contract, with ASN1Type::constraints() left uninterpreted",
            "mark_recursive / recurses (validator/linking/mod.rs: iterator closures + BTreeMap)",
            "link_components_of_notation (appends the copied members at the end of the list)",
        ],
    },
    "C05": {
        "verus": ["C02_C05_assembly"],
        "kani_quick": ["k_c03_module_header_from"], "kani_thorough": [],
        "bounded_native": [
            {"unit": "b_generate_enumerated", "functions": "Backend::generate_module -> generate_enumerated -> format_enum_members (generator/rasn)",
             "bound": "1..=4 enumerals drawn from {alpha, with-hyphen, move, type, b2, loop} with positive/negative numbers, extension marker absent or at any index (exhaustive, 108 cases); checks the generated token text"},
            {"unit": "b_module_header_parser", "functions": "lexer::module_header::module_header -> environments (nom combinators)",
             "bound": "header with/without OID, with/without encoding instructions, TAGS clause {none, AUTOMATIC, IMPLICIT, EXPLICIT}, with/without EXTENSIBILITY IMPLIED (exhaustive, 32 cases); a header without TAGS clause is not asserted (parsed as IMPLICIT, pinned by unit tests)"},
            {"unit": "b_sequence_parser", "functions": "lexer::sequence::sequence -> sequence_component / extension_group (nom combinators)",
             "bound": "0..=2 root components, optional marker, 0..=3 additions each a plain component or a [[ ]] group of 1..=2 components with/without version number (exhaustive, 471 cases); source text generated and parsed by the real parser"},
            {"unit": "b_generate_constructed", "functions": "Backend::generate_module -> generate_tld -> generate_sequence_or_set / generate_choice -> format_sequence_or_set_members, format_choice_options, format_sequence_member, format_tag, join_annotations (generator/rasn: quote!/TokenStream code)",
             "bound": "IR built directly: module default {AUTOMATIC, IMPLICIT, EXPLICIT} x EXTENSIBILITY IMPLIED on/off x {SEQUENCE, SET, CHOICE} x 1..=3 BOOLEAN components (each OPTIONAL or not, tagged or not) x extension marker absent or at any index 0..=n, followed by a second module with its own extensibility default on the same backend (exhaustive product, 10248 cases); checks the generated token text"},
        ],
        "unverified": [
            "extension_group parser (lexer/sequence.rs:71-109, nom)",
            "the `i >= first_extension_index` comparisons and #[non_exhaustive] selection in generator/rasn/utils.rs and builder.rs (TokenStream code)",
            "EXTENSIBILITY IMPLIED parsing and Rasn::generate_module's per-module reset of the extensibility default",
        ],
    },
    "C14": {
        "verus": ["C14_numbering"],
        "kani_quick": [], "kani_thorough": [],
        "bounded_native": [
            {"unit": "b_generate_enumerated", "functions": "Backend::generate_module -> generate_enumerated -> format_enum_members (generator/rasn)",
             "bound": "1..=4 enumerals drawn from {alpha, with-hyphen, move, type, b2, loop} with positive/negative numbers, extension marker absent or at any index (exhaustive, 108 cases); checks the generated token text"},
            {"unit": "b_c14_enumerated_parser", "functions": "lexer::enumerated::enumerated / enumerated_body / enumeration_items (nom glue around assign_enumeral_numbers)",
             "bound": "1..=3 root items and 0..=2 additions, each identifier-only or numbered from {-1,0,1,2,5}, with/without extension marker (exhaustive product); source text generated, parsed by the real parser and compared with assign_enumeral_numbers on the written numbers"},
        ],
        "bounded_native_thorough": [
            {"unit": "b_c14_enumerated_parser_full", "functions": "same as b_c14_enumerated_parser",
             "bound": "1..=5 root items and 0..=3 additions over the same alphabet (the property's own exhaustive set; exhaustive prefix then random sample up to the evaluation limit)"},
        ],
        "unverified": [
            "the nom parser of enumeration items (lexer/enumerated.rs: enumeration_items / enumeral) and the zip of the assigned numbers back onto the parsed items in enumerated_body (iterator adapters inside an `impl Parser` closure) — names and order are carried by that glue, not by a contract",
            "Enumerated::from (root ++ additions; under contract in C02/C05)",
            "discriminant literal and identifier annotation per variant (generator/rasn/utils.rs format_enum_members: TokenStream code)",
            "the distinctness lemma assumes that the explicitly written numbers are valid (X.680 §20.1/20.4/20.5) and below i128::MAX; the compiler does not reject invalid explicit numbers",
        ],
    },
    "C03": {
        "verus": ["C02_members"],
        "kani_quick": ["k_c03_tagenv_add", "k_c03_asn_tag_from", "k_c03_module_header_from", "k_layout_sentinel_scalars"],
        "kani_thorough": [],
        "bounded_native": [
            {"unit": "b_generate_constructed", "functions": "Backend::generate_module -> generate_tld -> generate_sequence_or_set / generate_choice -> format_sequence_or_set_members, format_choice_options, format_sequence_member, format_tag, join_annotations (generator/rasn: quote!/TokenStream code)",
             "bound": "IR built directly: module default {AUTOMATIC, IMPLICIT, EXPLICIT} x EXTENSIBILITY IMPLIED on/off x {SEQUENCE, SET, CHOICE} x 1..=3 BOOLEAN components (each OPTIONAL or not, tagged or not) x extension marker absent or at any index 0..=n, followed by a second module with its own extensibility default on the same backend (exhaustive product, 10248 cases); checks the generated token text"},
            {"unit": "b_resolve_class_reference_frame", "functions": "ASN1Type::resolve_class_reference (validator/linking/mod.rs)",
             "bound": "SEQUENCE / SET / CHOICE with 1..=3 BOOLEAN components, each untagged / IMPLICIT-tagged / EXPLICIT-tagged, extension marker absent or at any index (exhaustive)"},
            {"unit": "b_module_header_parser", "functions": "lexer::module_header::module_header -> environments (nom combinators)",
             "bound": "header with/without OID, with/without encoding instructions, TAGS clause {none, AUTOMATIC, IMPLICIT, EXPLICIT}, with/without EXTENSIBILITY IMPLIED (exhaustive, 32 cases); a header without TAGS clause is not asserted (parsed as IMPLICIT, pinned by unit tests)"},
            {"unit": "b_c03_element_tag", "functions": "Rasn::generate_sequence_or_set_of (generator/rasn/builder.rs), via Backend::generate_module",
             "bound": "module default x {SEQUENCE OF, SET OF} x {type assignment, SEQUENCE component} x element {BOOLEAN, type reference} x element tag present/absent (exhaustive, 48 cases)"},
            {"unit": "b_c03_apply_tagenv_lists", "functions": "ToplevelDefinition::apply_tagging_environment (intermediate/mod.rs)",
             "bound": "module default in {AUTOMATIC, IMPLICIT, EXPLICIT} x kind in {SEQUENCE, SET, CHOICE, primitive} x tag on the assignment x 0..=3 components, each untagged / keyword-less / IMPLICIT / EXPLICIT, the first component optionally an anonymous SEQUENCE or a SEQUENCE OF with tagged element and anonymous CHOICE element type (exhaustive product, 63588 cases)"},
        ],
        "unverified": [
            "WHERE the combination rule is applied: ToplevelDefinition::apply_tagging_environment is outside both verifiers (iter_mut().for_each closures; Kani layout defect and a 15-minute stall); it is covered only by the bounded stand-in b_c03_apply_tagenv_lists (assignment tag, SEQUENCE/SET components, CHOICE alternatives, one level of anonymous nesting and SEQUENCE OF element tags)",
            "TAGS clause parsing (lexer/module_header.rs environments: a module without TAGS clause is parsed as IMPLICIT, pinned by a unit test) and asn_tag (nom combinators)",
            "format_tag, tagged-CHOICE-forced-explicit, automatic_tags selection (generator/rasn: TokenStream code)",
            "the clauses 'at every nesting depth', 'tagged CHOICE or open type => explicit' and 'tagged automatically exactly when ...' are NOT decided by this check",
        ],
    },
    "C04": {
        "verus": ["C02_members", "C04_bounds"],
        "kani_quick": ["k_c04_add_assign"],
        "kani_thorough": [],
        "bounded_native": [
            {"unit": "b_c04_component_bounds", "functions": "Rasn::format_member_or_option -> constraints_and_type_name, format_range_annotations (generator/rasn/utils.rs), via Backend::generate_module",
             "bound": "one component typed INTEGER or by a type reference, in SEQUENCE and CHOICE, range ends {-5,0,3,MIN} x {5,MAX}, with/without extension marker (exhaustive, 56 cases); checks the emitted value(..) annotation"},
            {"unit": "b_c04_constraint_parser", "functions": "lexer::constraint::constraints -> element_set_specs, set_operation, union_mark, intersection_mark, value_range, single_value (nom combinators)",
             "bound": "expressions a | a op b | a op b op c over operands {5, -3, 0..10, MIN..7, -1..MAX}, operators spelled {|, UNION, ^, INTERSECTION, EXCEPT}, with/without trailing extension marker (exhaustive, 6510 cases); source text generated and parsed by the real parser"},
            {"unit": "b_c04_named_number_via_reference", "functions": "ToplevelDefinition::link_constraint_reference -> ASN1Type::link_constraint_reference (ElsewhereDeclaredType arm) -> Constraint::link_cross_reference",
             "bound": "three INTEGER types declaring the same named number with different values, constraint (0..top) on a reference to each of them, as type assignment and as SEQUENCE component, the constrained definition sorting before/between/after them (exhaustive, 18 cases)"},
            {"unit": "b_c04_string_component_size", "functions": "Rasn::format_member_or_option (per-type list of known-multiplier strings) -> format_range_annotations, via Backend::generate_module",
             "bound": "one component of each of 8 character string types x {SEQUENCE, CHOICE} x SIZE(2) / SIZE(2..4) x with/without marker (exhaustive, 64 cases)"},
            {"unit": "b_c04_named_number_lookup", "functions": "find_tld_or_enum_value_by_name (validator/linking/utils.rs) -> ToplevelDefinition::get_distinguished_or_enum_value",
             "bound": "2..=3 INTEGER / ENUMERATED definitions that may declare the same identifier with different numbers, every choice of governing type (exhaustive, 224 cases)"},
            {"unit": "b_c04_value_references", "functions": "ToplevelDefinition::has_constraint_reference -> ASN1Type::contains_constraint_reference -> Constraint/ElementOrSetOperation/SubtypeElements::has_cross_reference, and ToplevelDefinition::link_constraint_reference (validator/linking)",
             "bound": "single value or range with each end literal / value reference / MIN-MAX, as INTEGER type assignment, inside SIZE(..) of OCTET STRING, as SEQUENCE component and in a union (exhaustive, 60 cases); run exactly as Validator::validate does"},
            {"unit": "b_c04_integer_set_expression", "functions": "TryFrom<&Constraint> for PerVisibleRangeConstraints -> fold_constraint_set, intersect_single_and_range, union_single_and_range, compare_optional_asn1values / union_optional_asn1values (per_visible.rs)",
             "bound": "expressions a | a op b | a op (b op c) over INTEGER operands (single value or range, each end one of 7 points {-129,-1,0,1,5,255,256} or MIN/MAX), operators {|, ^, EXCEPT}; exhaustive prefix then seeded random sample up to the evaluation limit; empty intersections excluded"},
        ],
        "unverified": [
            "subtype-expression parser (lexer/constraint.rs, nom)",
            "reference resolution in validator/linking/constraints.rs",
            "fold_constraint_set, intersect_single_and_range, union_single_and_range, compare_optional_asn1values (per_visible.rs) are outside both verifiers (clone-heavy AST code with closures, String/BTreeMap alphabets; Kani: i128-bearing AST); integer set expressions are covered only by the bounded stand-in b_c04_integer_set_expression; SIZE(...) wrappers, character ranges, ContainedSubtype and operator precedence in the parser (a ^ b | c is parsed right-associatively) are not covered",
            "format_range_annotations and fixed_size (TokenStream code)",
        ],
    },
    "C07": {
        "verus": ["C07_octets_to_bits"],
        "kani_quick": ["k_c07_hex_to_bools", "k_c07_octet_to_bits", "k_c07_bits_to_octets", "k_c07_well_known", "k_c07_unknown_arc_names"],
        "kani_thorough": ["k_c07_long_bits_to_octets"],
        "bounded_native": [
            {"unit": "b_c07_struct_value_defaults", "functions": "ASN1Value::link_with_type (SequenceOrSet arm) -> link_struct_like (validator/linking/mod.rs)",
             "bound": "SEQUENCE of 1..=3 BOOLEAN components, each with/without DEFAULT, each written or omitted in the value, written in source or reverse order (exhaustive, 78 cases)"},
            {"unit": "b_c07_cstring_parser", "functions": "lexer::character_string::cstring (nom + str::replace)",
             "bound": "strings of 0..=5 pieces from {a, quotation mark, ' b', e-acute, '-- x'} (exhaustive, 3906 cases); each quotation mark written doubled in the source"},
            {"unit": "b_c07_bitstring_literal_parser", "functions": "lexer::bit_string::bit_string_value (bstring / hstring arm) -> hex_to_bools",
             "bound": "bstrings and hstrings of 0..=3 digits, every digit value (exhaustive, 4384 cases)"},
            {"unit": "b_c07_format_oid", "functions": "Rasn::format_oid (generator/rasn/utils.rs) -> ObjectIdentifierArc::well_known",
             "bound": "root arc in 7 written forms (itu-t, itu-t(0), 0, iso, iso(1), 1, joint-iso-itu-t) x second arc {well-known name of that root, name(number), plain number} x fixed tail (exhaustive, 69 cases); checks the emitted arc numbers"},
            {"unit": "b_c07_named_bits", "functions": "ASN1Value::link_with_type (BitStringNamedBits arm) -> bit_string_value_from_named_bits (validator/linking/mod.rs)",
             "bound": "1..=3 named bits with distinct numbers from 0..=5 (any declaration order) x every subset of names listed in the value (exhaustive product)"},
        ],
        "kani_bounded": {"k_c07_bits_to_octets": "bit-string lengths {0,8,9} with symbolic contents", "k_c07_long_bits_to_octets": "lengths {1,7,15,16,17,24}",
                         "k_c07_octet_to_bits": "one octet at a time, all 256 values (complete per octet); arbitrary lengths are covered by the Verus unit C07_octets_to_bits",
                         "k_c07_unknown_arc_names": "a fixed list of 10 non-table names"},
        "unverified": [
            "bit_string_value_from_named_bits (validator/linking/mod.rs): scans [DistinguishedValue] (Kani layout defect) with map/any/find_map closures (outside Verus) — covered only by the bounded stand-in b_c07_named_bits",
            "all literal parsing (nom: bstring/hstring/cstring/number/OID) and \"\" unescaping (str::replace)",
            "link_with_type's dispatch and reference resolution (iterator closures, BTreeMap)",
            "format_oid and value_to_tokens (TokenStream code)",
        ],
    },
})

# human-readable description of the extraction rules, repeated in every evidence file
DROP_RULES = {
    "D1": "attributes (derive / cfg_attr / default) on copied type definitions are removed",
    "D2": "argument of format!/grammar_error!/eprintln! replaced by \"\" / () — diagnostic text dropped, control flow and error kinds kept",
    "D3": "Rasn::int_type_token only: format_ident!(..) -> the &str it is built from; return type Ident -> &'static str",
    "D4": "trait-impl method re-headed as a free fn (Verus cannot put ensures on a trait impl); Self -> the concrete type",
    "D5": "closure parameter |_| -> |_u| and a ghost `-> (k: T) ensures ..` closure signature",
    "D6": "types the unit never inspects declared #[verifier::external_body] struct; every enum variant of inspected types kept",
    "S1": "return type `-> T` named `-> (r: T)` so that the contract can refer to the result",
}

COMMON_TRUSTED = [
    "Verus 0.2026.09.13 + z3 (its bundled solver) and rustc 1.98.1 front end",
    "vstd specifications of Vec::{len,push,append}, Option::{map,unwrap_or_default}, i128::{min,max}, integer From conversions",
    "Kani 0.68.0 / CBMC 6.11.0 / CaDiCaL, Kani's models of alloc (Vec, String) and of core",
    "the extraction rules D1-D6/S1 preserve the meaning of the executable text (diff printed by ./check <id> --show-diff)",
]
