#!/usr/bin/env python3
"""dev_unit.py <unit> [repo_root]  — build one Verus unit from the template and /repo's text, run Verus, print the verdicts.
Development aid only (not a registered command)."""
import os
import sys

HERE = os.path.dirname(os.path.dirname(os.path.abspath(__file__)))
sys.path.insert(0, HERE)
from vlib import verus_run  # noqa: E402

u = sys.argv[1]
repo = sys.argv[2] if len(sys.argv) > 2 else "/repo"
r, bu = verus_run.run_unit(u, os.path.join(HERE, "contracts", u + ".vt"), repo, os.path.join(HERE, "build", "verus", "_dev"))
print("status", r.status, "| reason", r.reason, "| verified", r.verified, "errors", r.errors, "| wall", round(r.wall_s, 1), "s | file", r.gen_path)
for n, o in sorted(r.obligations.items()):
    if o["status"] != "discharged":
        print("  ", o["status"].upper(), n, "::", o.get("detail", "")[:400])
print(len(r.obligations), "obligations;", sum(1 for o in r.obligations.values() if o["status"] == "discharged"), "discharged")
for e in r.raw_errors[:12]:
    sp = [s for s in e.get("spans", []) if s.get("is_primary")] or e.get("spans", [])
    print("ERR", e.get("message", "")[:300], "@", sp[0]["line_start"] if sp else "?")
if bu is not None and "--drops" in sys.argv:
    for f in bu.fns:
        print(f["id"], f["drops"])
