#!/bin/bash
# confirm_seed.sh <worktree> <k> <seed-id>
# Independently confirms a seeded change produced by a sub-agent:
#   (a) patch applies to HEAD, (b) full test suite passes with it, (c) demo FAILS with it, (d) demo PASSES without it.
# On success copies patch.diff, the demo and meta.json to /verif/seeded/<seed-id>/ and appends what was run.
set -u
WT=$1; K=$2; ID=$3
S=$WT/SEEDED/$K
OUT=/verif/seeded/$ID
LOG=/tmp/confirm_$ID.log
: > $LOG
cd $WT || exit 2
git checkout -q -- . ; rm -f rasn-compiler/tests/verif_seed_demo.rs
git apply --check $S/patch.diff >>$LOG 2>&1 || { echo "$ID: patch does not apply"; exit 1; }
git apply $S/patch.diff
echo "== suite with change" >>$LOG
cargo test --workspace --no-fail-fast --offline -j 8 >>$LOG 2>&1; SUITE=$?
if [ -f $S/demo_test.rs ]; then
  mkdir -p rasn-compiler/tests; cp $S/demo_test.rs rasn-compiler/tests/verif_seed_demo.rs
  echo "== demo with change" >>$LOG
  cargo test -p rasn-compiler --test verif_seed_demo --offline -j 8 >>$LOG 2>&1; DEMO_WITH=$?
  git checkout -q -- .
  echo "== demo without change" >>$LOG
  cargo test -p rasn-compiler --test verif_seed_demo --offline -j 8 >>$LOG 2>&1; DEMO_WITHOUT=$?
  rm -f rasn-compiler/tests/verif_seed_demo.rs; rmdir rasn-compiler/tests 2>/dev/null
  DEMOFILE=demo_test.rs
elif [ -f $S/demo.sh ]; then
  echo "== demo with change" >>$LOG
  bash $S/demo.sh >>$LOG 2>&1; DEMO_WITH=$?
  git checkout -q -- .
  echo "== demo without change" >>$LOG
  bash $S/demo.sh >>$LOG 2>&1; DEMO_WITHOUT=$?
  DEMOFILE=demo.sh
else
  git checkout -q -- .
  echo "$ID: no demo"; exit 1
fi
git checkout -q -- .
echo "$ID: suite_with_change=$SUITE demo_with_change=$DEMO_WITH demo_without_change=$DEMO_WITHOUT"
if [ $SUITE -eq 0 ] && [ $DEMO_WITH -ne 0 ] && [ $DEMO_WITHOUT -eq 0 ]; then
  mkdir -p $OUT
  cp $S/patch.diff $OUT/patch.diff
  cp $S/$DEMOFILE $OUT/$DEMOFILE
  python3 - "$S/meta.json" "$OUT/meta.json" "$ID" <<'E'
import json,sys
src,dst,sid=sys.argv[1:4]
try: m=json.load(open(src))
except Exception: m={}
m["seed_id"]=sid
m["confirmed_by"]="tools/confirm_seed.sh: patch applied to a scratch worktree of /repo HEAD; `cargo test --workspace --no-fail-fast --offline` exit 0 with the change; demo exit !=0 with the change and exit 0 without it"
json.dump(m,open(dst,"w"),indent=1)
E
  echo "$ID: CONFIRMED -> $OUT"
  exit 0
fi
echo "$ID: NOT confirmed (see $LOG)"
exit 1
