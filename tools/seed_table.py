#!/usr/bin/env python3
"""Renders the table of seeded changes (seeded/*/meta.json + seeded/RESULTS.tsv) into DESIGN.md §8."""
import json, os, re
root = os.path.dirname(os.path.dirname(os.path.abspath(__file__)))
res = {}
for ln in open(os.path.join(root, "seeded", "RESULTS.tsv")):
    p = ln.rstrip("\n").split("\t")
    if len(p) >= 4:
        res[p[0]] = p
rows = []
for sid in sorted(os.listdir(os.path.join(root, "seeded"))):
    d = os.path.join(root, "seeded", sid)
    if not os.path.isdir(d) or not os.path.exists(os.path.join(d, "meta.json")):
        continue
    m = json.load(open(os.path.join(d, "meta.json")))
    files = ", ".join(os.path.basename(f) for f in m.get("files_touched", [])[:2])
    summ = re.sub(r"\s+", " ", str(m.get("summary", "")))[:170].replace("|", "/")
    r = res.get(sid, [sid, m.get("property", "?"), "not run", ""])
    rows.append(f"| {sid} | {files}: {summ} | {r[2]} | {r[3].strip().replace(' ', '<br>')} |")
p = os.path.join(root, "DESIGN.md")
s = open(p).read()
head = "| seed | change (file: function) | verdict of `./check <id>` | obligation that fails |\n|------|-------------------------|---------------------------|------------------------|\n"
i = s.index(head) + len(head)
j = s.find("\n\n", i)
j = len(s) if j < 0 else j
s = s[:i] + "\n".join(rows) + s[j:]
open(p, "w").write(s)
print(len(rows), "rows")
