#!/usr/bin/env python3
"""Regenerates /verif/MANIFEST.json from units.py and the texts below (run by hand after changing the claims)."""
import json, sys, os
sys.path.insert(0, os.path.dirname(os.path.dirname(os.path.abspath(__file__))))
import units

TEXT = {
 "C02": ("Unbounded Verus proofs, on the real bodies extracted from /repo on every run: the four IR assembly functions keep every parsed component exactly once and in source order (root ++ additions; COMPONENTS OF split off in order); one component / alternative / SEQUENCE OF keeps name, tag, type and OPTIONAL/DEFAULT marking; Rasn::needs_unnesting hoists every anonymous constructed or decorated element type at any nesting depth. Emission of fields/variants, the component type table, default functions, recursion marking, the SEQUENCE parser and class-reference resolution are outside both verifiers and are covered only by bounded stand-ins (native execution of the same contract functions over stated finite domains), reported separately and never counted as proved.", "DESIGN.md §A, §4 C02"),
 "C03": ("Complete Kani proofs (loop-free, full scalar domain, in place on the real crate) of the X.680 §31.2.7 combination rule (all 9 pairs), of AsnTag::from (4 class keywords x all u64 x 3 keyword states) and of ModuleHeader::from's defaults; Verus proofs that a component / alternative / SEQUENCE OF element keeps its tag as written. Where the rule is applied (apply_tagging_environment, now recursive after a fix), tag rendering, tagged CHOICE forced explicit, automatic_tags and class-reference resolution are covered only by bounded stand-ins. Known finding: SEQUENCE OF element tags are never rendered (pinned by a snapshot test).", "DESIGN.md §A, §4 C03"),
 "C04": ("Unbounded Verus proof on the extracted body of fold_constraint_set that a set expression of integer values and ranges joined by UNION / INTERSECTION (any depth) folds to one element that contains every permitted value, is exactly the hull / the intersection on two elements, and is extensible exactly when an operand carries the marker; the same unit proves intersect_/union_single_and_range, ASN1Value::min/max, compare_/union_optional_asn1values and the two TryFrom impls that turn an element / a constraint into PerVisibleRangeConstraints (ends, outer-marker rule). Complete Kani proof over the full Option<i128>^4 x bool^4 x i128 domain that serial application (+=) is exactly interval intersection with sticky extensibility. Not proved (bounded stand-ins only): the EXCEPT and character-string arms, SIZE / FROM re-entry, ContainedSubtype, the filter loop of per_visible_range_constraints, the constraint parser, value-reference and named-number resolution, and the emitted value/size annotations.", "DESIGN.md §A, §4 C04"),
 "C05": ("Unbounded Verus proof that each assembled SEQUENCE/SET/CHOICE/ENUMERATED is extensible exactly when a marker was parsed and that the first-addition index equals the number of root members; Kani proof of the header's extensibility default. The general index clause for root lists containing COMPONENTS OF fails and is a listed known finding. [[ ]] group parsing, extension_addition marks, non_exhaustive (incl. EXTENSIBILITY IMPLIED and nested types) are covered only by bounded stand-ins.", "DESIGN.md §A, §4 C05"),
 "C06": ("Unbounded Verus proof that the two width-selection routines of the real code choose exactly the narrowest Rust integer type that holds [lo,hi], Integer when extensible or open-ended, and that both routines agree; complete Kani proofs of IntegerType::max_restrictive over all 81 pairs and of the const-vs-lazy decision ASN1Value::is_const_type over every width and every i128. The fold over serial constraints (Integer::int_type; known finding) and the extensible flag handed to the component path are covered only by bounded stand-ins; literal tagging and rendering are not covered.", "DESIGN.md §A, §4 C06"),
 "C07": ("Verus proof that octet strings of any length expand to their bits MSB first, 8 per octet, in order (incl. a bit-vector lemma for the bit positions); complete Kani proofs in place: hex digit table for every char, octet->bits for every byte with round trip, the well-known OID arc table row by row under every root; bits->octets for the stated bit-string lengths (bounded Kani). Named-bit lists and SEQUENCE/SET values with DEFAULTs are covered only by bounded stand-ins; literal parsing, reference resolution and value rendering are not covered.", "DESIGN.md §A, §4 C07"),
 "C14": ("Unbounded Verus proof that assign_enumeral_numbers implements X.680 §20.3/§20.6 exactly (explicit numbers kept; identifier-only root items get the successive smallest unused non-negative integers; identifier-only additions the smallest value unused in the root and greater than all preceding additions) and a lemma that all numbers of a type are pairwise distinct when the written numbers are valid. The nom item parser with the zip back onto names, and discriminant / identifier emission are covered only by bounded stand-ins.", "DESIGN.md §A, §4 C14"),
}
NOTE = "Trusted: Verus/z3, Kani/CBMC/CaDiCaL, rustc; vstd specs; the assume_specification / external_body items listed per run in evidence.coverage.trusted_base (scanned mechanically); extraction rules D1-D9/S1 (diff: ./check <id> --show-diff); everything listed under coverage.unverified_mechanisms_of_this_property is outside the claim."
NA = {
 "C01": "rustc's verdict on quote!-assembled text is a whole-output relation against rasn's trait system; every function on the path returns TokenStream (Kani ICE on proc_macro2, Verus has no quote) — no function-level contract implies 'type-checks'",
 "C08": "totality over all strings of a nom-combinator parser, an un-memoised linker and format!-based rendering; Verus cannot ingest nom/str code, Kani did not finish str scanners on 3-byte inputs and proves no termination",
 "C09": "an equivalence between two compilations (sugared vs expanded, name orders); the per-call pieces are iterator-closure code over BTreeMap<String, ToplevelDefinition> outside both verifiers",
 "C10": "accounting over the whole definition set across three stages written with iterator adapters and TokenStream; no function owns the invariant",
 "C11": "quantifies over schedules, histories and permutations; contracts here are sequential single-call, Kani has no threads; the argument is whole-program non-interference",
 "C12": "a relation between compilations of different module subsets; the state involved lives in TokenStream code (generate_module)",
 "C13": "a metamorphic relation over source text decided combinator by combinator inside nom; no verifier here ingests the lexer",
 "C15": "decided by char/String/BTreeMap iteration (alphabet folding, per-type character tables) outside Verus's subset and beyond Kani's tractable size",
 "C16": "str/char loops ending in Ident::new / TokenStream::from_str: Verus has no str reasoning; Kani ICEs on proc_macro2 and did not finish to_rust_snake_case(\"type\") in 5 min",
 "C17": "line/offset bookkeeping is str::match_indices driven by every nom combinator; renderings are format! strings (Kani >15 min on 3 bytes; Verus no str)",
 "C18": "format!-template string building end to end; the property is about the shape of the produced text",
 "C19": "a relation between two compilations under different Configs (non-interference of scattered config branches inside TokenStream code)",
 "C20": "file-system and process effects (fs::write, stdout, exit status, proc-macro expansion); neither verifier models the OS",
}
m = {
 "version": 1,
 "setup_cmd": "cd /verif && ./setup.sh",
 "hooks": {"guard": "librasn_compiler_verif", "enable": "RUSTFLAGS='--cfg librasn_compiler_verif' LIBRASN_VERIF_DIR=/verif (cargo kani additionally sets cfg(kani)); hooks are `#[cfg(librasn_compiler_verif)] mod ... { include!(concat!(env!(\"LIBRASN_VERIF_DIR\"), \"/hooks/<file>.rs\")) }` plus two re-exports",
           "baseline_off_cmd": "cd /repo && cargo test --workspace --no-fail-fast --offline", "source_commits": ["e64637d", "HOOK2"], "add_only": True},
 "engines": [
   {"name": "verus-extract", "path": "/verif/vlib + /verif/contracts/*.vt", "serves_properties": ["C02", "C05", "C06", "C14"], "kind_free_text": "Verus on functions extracted mechanically from /repo on every run; contracts and ghost text spliced in"},
   {"name": "kani-in-place", "path": "/verif/hooks/*.rs", "serves_properties": ["C03", "C04", "C05", "C06", "C07"], "kind_free_text": "Kani harnesses compiled inside the real crate behind cfg(librasn_compiler_verif); the same contract functions re-run natively for counterexample replay"},
   {"name": "native-replay", "path": "/verif/replay", "serves_properties": list(TEXT), "kind_free_text": "the contract functions of hooks/*.rs executed natively on the real crate: replay of counterexamples, fallback search for a failing input when a Verus unit is undecided, and the bounded stand-ins (labelled, never counted as proved)"},
 ],
 "checks": [], "not_applicable": [],
 "notes": "exit 2 (no VIOLATION line) = undecided: lost anchor, unsupported construct, solver limit, tool crash or ledger mismatch. Known findings: /verif/known_findings.txt.",
}
for pid in sorted(TEXT):
    text, ref = TEXT[pid]
    cfg = units.PROPERTIES[pid]
    backends = ("Verus on mechanically extracted functions" if cfg.get("verus") else "") + (" + " if cfg.get("verus") and (cfg.get("kani_quick") or cfg.get("kani_thorough")) else "") + ("Kani function-level proofs in place" if (cfg.get("kani_quick") or cfg.get("kani_thorough")) else "")
    m["checks"].append({
        "property_id": pid, "quick_cmd": f"./check {pid} --tier quick", "thorough_cmd": f"./check {pid} --tier thorough",
        "evidence_file": f"/verif/evidence/{pid}.json", "replay_cmd_template": "./check --replay {path}", "engine": "verus-extract" if cfg.get("verus") else "kani-in-place",
        "level_claimed": {"category": "proof", "text": text, "design_ref": ref}, "level_note": NOTE,
        "technique": "contract-based deductive verification: " + backends + ("; bounded native execution of the same contracts as labelled stand-in where no verifier reaches" if cfg.get("bounded_native") else ""),
    })
for pid in sorted(NA):
    m["not_applicable"].append({"property_id": pid, "reason": NA[pid]})
hook2 = os.popen("git -C /repo log --format=%h --grep='verif hook' ").read().split()
m["hooks"]["source_commits"] = list(reversed(hook2))
json.dump(m, open(os.path.join(os.path.dirname(os.path.dirname(os.path.abspath(__file__))), "MANIFEST.json"), "w"), indent=1)
print("checks:", [c["property_id"] for c in m["checks"]], "n/a:", len(m["not_applicable"]), "hooks:", m["hooks"]["source_commits"])
