#!/bin/bash
# suite.sh — runs the repository's test suite (guard off) and prints totals; exit 1 on any failure
cd /repo && cargo test --workspace --no-fail-fast --offline 2>&1 | grep -E "^test result" | awk '{p+=$4; f+=$6} END {print "passed", p, "failed", f; exit (f>0 || p<331)}'
