#!/bin/bash
# run_all.sh <tier> [--write-ledger]   runs every registered check sequentially, prints one line per check
cd /verif
for p in C02 C03 C04 C05 C06 C07 C14; do
  out=$(./check $p --tier ${1:-quick} $2 2>&1); rc=$?
  echo "$p rc=$rc :: $(echo "$out" | tail -1)"
  [ $rc -ne 0 ] && echo "$out" | tail -8
done
