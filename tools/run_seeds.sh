#!/bin/bash
# run_seeds.sh [id...]  — applies each confirmed seeded change to /repo, runs the quick check of its property, undoes it.
# Prints one line per seed: caught (exit 1 + VIOLATION), undecided (exit 2), missed (exit 0).
cd /verif
ids=${@:-$(ls -d seeded/C*/ | xargs -n1 basename)}
for id in $ids; do
  d=seeded/$id
  pid=$(python3 -c "import json;print(json.load(open('$d/meta.json')).get('property','${id%%-*}'))")
  git -C /repo checkout -q -- . 
  if ! git -C /repo apply --check $PWD/$d/patch.diff 2>/dev/null; then echo "$id: patch no longer applies"; continue; fi
  git -C /repo apply $PWD/$d/patch.diff
  out=$(./check $pid --tier quick 2>&1); rc=$?
  git -C /repo checkout -q -- .
  case $rc in 0) v=MISSED;; 1) v=CAUGHT;; *) v=UNDECIDED;; esac
  echo "$id ($pid): $v rc=$rc :: $(echo "$out" | grep -E '^VIOLATION|^UNDECIDED' | head -3 | tr '\n' ' ')"
  obl=$(echo "$out" | grep -E '^obligation .* FAILED' | sed -E 's/^obligation ([^ ]+) FAILED.*/\1/' | head -4 | tr '\n' ' ')
  grep -v "^$id	" seeded/RESULTS.tsv 2>/dev/null > seeded/RESULTS.tmp; mv seeded/RESULTS.tmp seeded/RESULTS.tsv
  printf '%s\t%s\t%s\t%s\n' "$id" "$pid" "$v" "$obl" >> seeded/RESULTS.tsv
  echo "$out" > /tmp/seedrun_$id.log
done
# evidence files were rewritten while changes were applied: regenerate them on the clean tree
git -C /repo checkout -q -- .
tools/run_all.sh quick > /tmp/run_all_after_seeds.out 2>&1
