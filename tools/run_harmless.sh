#!/bin/bash
# run_harmless.sh — behaviour-preserving edits of /repo: no check may print VIOLATION (exit 0 expected; exit 2 = undecided is tolerated and listed)
cd /verif
declare -A PROP=( [h1]="C06" [h2]="C02 C05" [h3]="C07" [h4]="C04" [h5]="C14" [h6]="C03" [h7]="C07" [h8]="C03" [h9]="C06" [h10]="C04 C06" [h11]="C03" [h12]="C02 C05" [h13]="C04" [h14]="C07" [h15]="C06 C02" [h16]="C04 C06" [h17]="C07 C14" [h18]="C03" [h19]="C07" [h20]="C04" [h21]="C04" [h22]="C04 C02" [h23]="C04" [h24]="C06" [h25]="C03" [h26]="C04" [h27]="C14 C05" [h28]="C02" [h29]="C03" [h30]="C02 C05" [h31]="C07" [h32]="C02 C03" [h33]="C03 C05" [h34]="C04" [h35]="C04 C06" [h36]="C02 C14" [h37]="C02" )
for f in tools/harmless/*.diff; do
  id=$(basename $f .diff); key=${id%%_*}
  git -C /repo checkout -q -- .
  git -C /repo apply $PWD/$f || { echo "$id: does not apply"; continue; }
  (cd /repo && cargo build -p rasn-compiler --offline -q 2>/dev/null) || echo "$id: DOES NOT COMPILE"
  for p in ${PROP[$key]}; do
    out=$(./check $p --tier quick 2>&1); rc=$?
    echo "$id ($p): rc=$rc $(echo "$out" | grep -E '^VIOLATION|^UNDECIDED' | head -2 | cut -c1-200 | tr '\n' ' ')"
  done
  git -C /repo checkout -q -- .
done
tools/run_all.sh quick > /tmp/run_all_after_harmless.out 2>&1
