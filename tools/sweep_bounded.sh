#!/bin/bash
# sweep_bounded.sh [seeds] [limit] — runs every sampled bounded stand-in with several seeds at a high evaluation limit
# (development aid: a failure here on the unchanged tree is either a genuine defect or a wrong contract and must be triaged)
cd /verif
SEEDS=${1:-"1 2 3 4 5 6 7 8"}; LIMIT=${2:-4000000}
for u in b_c04_integer_set_expression b_c02_recursion_marking b_c14_enumerated_parser_full; do
  for s in $SEEDS; do
    out=$(VERIF_SEED=$s VERIF_REPLAY_LIMIT=$LIMIT build/replay-target/debug/verif-replay kani $u | grep -E "REPLAY-FAIL|REPLAY-SUMMARY" | cut -c1-260)
    echo "seed=$s $out"
  done
done
