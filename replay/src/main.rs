//! Native replay on the real crate (never decides; see DESIGN.md §2.3).
//!   verif-replay compile <asn1 text>                 run the real compiler, print bindings / warnings / error
//!   verif-replay kani <harness> [hexbytes,hexbytes,...]   re-run a Kani contract natively (grid, or Kani's concrete values)
//!   verif-replay verus <obligation-prefix>            executable copies of the Verus postconditions over boundary grids
mod verus_replay;

fn main() {
    let args: Vec<String> = std::env::args().collect();
    let code = match args.get(1).map(|s| s.as_str()) {
        Some("compile") => {
            use rasn_compiler::prelude::*;
            let r = Compiler::<RasnBackend, _>::new().add_asn_literal(&args[2]).compile_to_string();
            match r {
                Ok(o) => { println!("{}", o.generated); for w in o.warnings { println!("WARN {w}"); } 0 }
                Err(e) => { println!("ERR {e}"); 1 }
            }
        }
        Some("kani") => {
            let bytes = args.get(3).map(|s| {
                s.split(',').filter(|x| !x.is_empty()).map(|h| (0..h.len() / 2).map(|i| u8::from_str_radix(&h[2 * i..2 * i + 2], 16).unwrap()).collect::<Vec<u8>>()).collect::<Vec<_>>()
            });
            rasn_compiler::verif_hooks::replay(&args[2], bytes)
        }
        Some("verus") => verus_replay::run(&args[2]),
        _ => { eprintln!("usage: verif-replay compile|kani|verus ..."); 2 }
    };
    std::process::exit(if code == 0 { 0 } else if code == 2 { 2 } else { 1 });
}
