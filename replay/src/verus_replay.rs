//! Executable copies of the Verus postconditions, evaluated on the REAL functions of /repo over the
//! properties' own boundary grids.  Replay only: Verus gives no counterexample, so when an obligation
//! fails this looks for a concrete failing input.  A transcription error here can at worst miss a failing
//! input (the VIOLATION line then ends with no-failing-input-found); it never decides anything.
use rasn_compiler::prelude::ir::*;
use std::collections::BTreeMap;

pub const GRID: &[i128] = &[
    i128::MIN, i128::MIN + 1, -(1 << 64) - 1, -(1 << 64), -(1 << 64) + 1, -(1 << 63) - 1, -(1 << 63), -(1 << 63) + 1,
    -(1 << 32) - 1, -(1 << 32), -(1 << 32) + 1, -(1 << 31) - 1, -(1 << 31), -(1 << 31) + 1, -(1 << 16) - 1, -(1 << 16), -(1 << 16) + 1,
    -(1 << 15) - 1, -(1 << 15), -(1 << 15) + 1, -257, -256, -255, -129, -128, -127, -1, 0, 1, 127, 128, 129, 255, 256, 257,
    (1 << 15) - 1, 1 << 15, (1 << 15) + 1, (1 << 16) - 1, 1 << 16, (1 << 16) + 1, (1 << 31) - 1, 1 << 31, (1 << 31) + 1,
    (1 << 32) - 1, 1 << 32, (1 << 32) + 1, (1 << 63) - 1, 1 << 63, (1 << 63) + 1, (1 << 64) - 1, 1 << 64, (1 << 64) + 1, i128::MAX - 1, i128::MAX,
];

pub struct Rep {
    pub fails: BTreeMap<String, Vec<String>>,
    pub evals: u64,
    pub per_obligation_cap: usize,
}
impl Rep {
    pub fn new() -> Self { Rep { fails: BTreeMap::new(), evals: 0, per_obligation_cap: 25 } }
    pub fn check(&mut self, name: &str, ok: bool, input: impl FnOnce() -> String) {
        self.evals += 1;
        if !ok {
            let v = self.fails.entry(name.to_string()).or_default();
            if v.len() < self.per_obligation_cap { v.push(input()); }
        }
    }
    pub fn finish(self, unit: &str) -> i32 {
        for (name, inputs) in &self.fails {
            for i in inputs { println!("REPLAY-FAIL unit={unit} obligation={name} inputs=[{i}]"); }
        }
        println!("REPLAY-SUMMARY unit={unit} mode=boundary-grid evaluations={} failing={}", self.evals, self.fails.len());
        if self.fails.is_empty() { 0 } else { 1 }
    }
}

pub fn run(obligation: &str) -> i32 {
    let mut rep = Rep::new();
    if obligation.starts_with("C06.int_type_token") { c06_int_type_token(&mut rep); return rep.finish("C06.int_type_token"); }
    if obligation.starts_with("C06.") { c06_integer_constraints(&mut rep); return rep.finish("C06.integer_constraints"); }
    println!("REPLAY-NOTE no native replay registered for {obligation}");
    0
}

// ---------------------------------------------------------------------------------------------- C06
fn fits(t: IntegerType, lo: i128, hi: i128) -> bool {
    match t {
        IntegerType::Uint8 => 0 <= lo && hi <= 255,
        IntegerType::Int8 => -128 <= lo && hi <= 127,
        IntegerType::Uint16 => 0 <= lo && hi <= 65535,
        IntegerType::Int16 => -32768 <= lo && hi <= 32767,
        IntegerType::Uint32 => 0 <= lo && hi <= 4294967295,
        IntegerType::Int32 => -2147483648 <= lo && hi <= 2147483647,
        IntegerType::Uint64 => 0 <= lo && hi <= 18446744073709551615,
        IntegerType::Int64 => -9223372036854775808 <= lo && hi <= 9223372036854775807,
        IntegerType::Unbounded => true,
    }
}
fn spec_width(lo: i128, hi: i128, ext: bool) -> IntegerType {
    if ext || lo > hi { return IntegerType::Unbounded; }
    let order: &[IntegerType] = if lo >= 0 { &[IntegerType::Uint8, IntegerType::Uint16, IntegerType::Uint32, IntegerType::Uint64] }
        else { &[IntegerType::Int8, IntegerType::Int16, IntegerType::Int32, IntegerType::Int64] };
    for t in order { if fits(*t, lo, hi) { return *t; } }
    IntegerType::Unbounded
}
fn type_name(t: IntegerType) -> &'static str {
    match t {
        IntegerType::Uint8 => "u8", IntegerType::Int8 => "i8", IntegerType::Uint16 => "u16", IntegerType::Int16 => "i16",
        IntegerType::Uint32 => "u32", IntegerType::Int32 => "i32", IntegerType::Uint64 => "u64", IntegerType::Int64 => "i64",
        IntegerType::Unbounded => "Integer",
    }
}

fn c06_integer_constraints(rep: &mut Rep) {
    // end kinds: integer from the grid, open (None), non-integer value
    let mut ends: Vec<(String, Option<ASN1Value>, Option<i128>)> = vec![
        ("open".into(), None, None),
        ("string".into(), Some(ASN1Value::String("a".into())), None),
    ];
    for g in GRID { ends.push((format!("{g}"), Some(ASN1Value::Integer(*g)), Some(*g))); }
    for (ln, lv, li) in &ends {
        for (hn, hv, hi) in &ends {
            for elem_ext in [false, true] {
                for outer in [false, true] {
                    let c = Constraint::Subtype(ElementSetSpecs {
                        set: ElementOrSetOperation::Element(SubtypeElements::ValueRange { min: lv.clone(), max: hv.clone(), extensible: elem_ext }),
                        extensible: outer,
                    });
                    let t = c.integer_constraints();
                    let bounds = match (li, hi) { (Some(l), Some(h)) => Some((*l, *h, elem_ext || outer)), _ => None };
                    let desc = || format!("form=range lo={ln} hi={hn} elem_ext={elem_ext} outer_marker={outer} -> got {t:?}");
                    check_width(rep, t, bounds, desc);
                    let vr = c.unpack_as_value_range();
                    rep.check("C06.unpack_as_value_range.projection", matches!(&vr, Ok((a, b, x)) if *a == lv && *b == hv && *x == elem_ext), desc);
                    rep.check("C06.unpack_as_strict_value.projection", c.unpack_as_strict_value().is_err(), desc);
                }
            }
        }
    }
    for (vn, vv, vi) in &ends {
        let Some(v) = vv else { continue };
        for elem_ext in [false, true] {
            for outer in [false, true] {
                let c = Constraint::Subtype(ElementSetSpecs {
                    set: ElementOrSetOperation::Element(SubtypeElements::SingleValue { value: v.clone(), extensible: elem_ext }),
                    extensible: outer,
                });
                let t = c.integer_constraints();
                let bounds = vi.map(|i| (i, i, elem_ext || outer));
                let desc = || format!("form=single value={vn} elem_ext={elem_ext} outer_marker={outer} -> got {t:?}");
                check_width(rep, t, bounds, desc);
                rep.check("C06.unpack_as_strict_value.projection", matches!(c.unpack_as_strict_value(), Ok((a, x)) if a == v && x == elem_ext), desc);
                rep.check("C06.unpack_as_value_range.projection", c.unpack_as_value_range().is_err(), desc);
            }
        }
    }
    // shapes that are neither a bare range nor a single value must give Unbounded
    let r = |lo: i128, hi: i128| SubtypeElements::ValueRange { min: Some(ASN1Value::Integer(lo)), max: Some(ASN1Value::Integer(hi)), extensible: false };
    let others = vec![
        ("size", Constraint::Subtype(ElementSetSpecs { set: ElementOrSetOperation::Element(SubtypeElements::SizeConstraint(Box::new(ElementOrSetOperation::Element(r(1, 5))))), extensible: false })),
        ("union", Constraint::Subtype(ElementSetSpecs { set: ElementOrSetOperation::SetOperation(SetOperation { base: r(1, 5), operator: SetOperator::Union, operant: Box::new(ElementOrSetOperation::Element(r(7, 9))) }), extensible: false })),
        ("parameter", Constraint::Parameter(vec![])),
    ];
    for (n, c) in others {
        let t = c.integer_constraints();
        check_width(rep, t, None, || format!("form={n} -> got {t:?}"));
    }
}

fn check_width(rep: &mut Rep, t: IntegerType, bounds: Option<(i128, i128, bool)>, desc: impl Fn() -> String + Copy) {
    match bounds {
        Some((lo, hi, x)) => {
            rep.check("C06.integer_constraints.fixed_only_if_finite_nonext", t == IntegerType::Unbounded || (!x && lo <= hi), desc);
            rep.check("C06.integer_constraints.fits", lo > hi || fits(t, lo, hi), desc);
            rep.check("C06.integer_constraints.exact_width", t == spec_width(lo, hi, x), desc);
        }
        None => rep.check("C06.integer_constraints.fixed_only_if_finite_nonext", t == IntegerType::Unbounded, desc),
    }
}

fn c06_int_type_token(rep: &mut Rep) {
    let mut ends: Vec<Option<i128>> = vec![None];
    for g in GRID { ends.push(Some(*g)); }
    for lo in &ends {
        for hi in &ends {
            for ext in [false, true] {
                let name = rasn_compiler::verif_hooks::hook_int_type_token(*lo, *hi, ext);
                let desc = || format!("min={lo:?} max={hi:?} extensible={ext} -> got {name}");
                match (lo, hi) {
                    (Some(l), Some(h)) => { if l <= h { rep.check("C06.int_type_token.exact_width", name == type_name(spec_width(*l, *h, ext)), desc); } }
                    _ => rep.check("C06.int_type_token.open_end_is_Integer", name == "Integer", desc),
                }
                if ext { rep.check("C06.int_type_token.extensible_is_Integer", name == "Integer", desc); }
            }
        }
    }
}
