pub fn run(_prefix: &str) -> i32 { 0 }
