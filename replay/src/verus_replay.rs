//! Executable copies of the Verus postconditions, evaluated on the REAL functions of /repo over the
//! properties' own boundary grids.  Replay only: Verus gives no counterexample, so when an obligation
//! fails this looks for a concrete failing input.  A transcription error here can at worst miss a failing
//! input (the VIOLATION line then ends with no-failing-input-found); it never decides anything.
use rasn_compiler::prelude::ir::*;
use std::collections::BTreeMap;

pub const GRID: &[i128] = &[
    i128::MIN, i128::MIN + 1, -(1 << 64) - 1, -(1 << 64), -(1 << 64) + 1, -(1 << 63) - 1, -(1 << 63), -(1 << 63) + 1,
    -(1 << 32) - 1, -(1 << 32), -(1 << 32) + 1, -(1 << 31) - 1, -(1 << 31), -(1 << 31) + 1, -(1 << 16) - 1, -(1 << 16), -(1 << 16) + 1,
    -(1 << 15) - 1, -(1 << 15), -(1 << 15) + 1, -257, -256, -255, -129, -128, -127, -1, 0, 1, 127, 128, 129, 255, 256, 257,
    (1 << 15) - 1, 1 << 15, (1 << 15) + 1, (1 << 16) - 1, 1 << 16, (1 << 16) + 1, (1 << 31) - 1, 1 << 31, (1 << 31) + 1,
    (1 << 32) - 1, 1 << 32, (1 << 32) + 1, (1 << 63) - 1, 1 << 63, (1 << 63) + 1, (1 << 64) - 1, 1 << 64, (1 << 64) + 1, i128::MAX - 1, i128::MAX,
];

pub struct Rep {
    pub fails: BTreeMap<String, Vec<String>>,
    pub names: std::collections::BTreeSet<String>,
    pub evals: u64,
    pub per_obligation_cap: usize,
}
impl Rep {
    pub fn new() -> Self { Rep { fails: BTreeMap::new(), names: Default::default(), evals: 0, per_obligation_cap: 25 } }
    pub fn check(&mut self, name: &str, ok: bool, input: impl FnOnce() -> String) {
        self.evals += 1;
        if !self.names.contains(name) { self.names.insert(name.to_string()); }
        if !ok {
            let v = self.fails.entry(name.to_string()).or_default();
            if v.len() < self.per_obligation_cap { v.push(input()); }
        }
    }
    pub fn finish(self, unit: &str) -> i32 {
        for (name, inputs) in &self.fails {
            for i in inputs { println!("REPLAY-FAIL unit={unit} obligation={name} inputs=[{i}]"); }
        }
        println!("REPLAY-OBLIGATIONS unit={unit} names={}", self.names.iter().cloned().collect::<Vec<_>>().join(","));
        println!("REPLAY-SUMMARY unit={unit} mode=boundary-grid evaluations={} failing={}", self.evals, self.fails.len());
        if self.fails.is_empty() { 0 } else { 1 }
    }
}

pub fn run(obligation: &str) -> i32 {
    let mut rep = Rep::new();
    std::panic::set_hook(Box::new(|_| {}));   // panics of the code under contract are reported as outcomes, not printed
    if obligation.starts_with("C06.generate_integer_value") || obligation.starts_with("C06.integer_value_template") || obligation.starts_with("C06.is_builtin_type") { gen_integer_values(&mut rep); return rep.finish("GEN_values"); }
    if ["C04.generate_character_string", "C04.generate_oid", "C04.char_string_template", "C04.oid_template"].iter().any(|p| obligation.starts_with(p)) { gen_strings(&mut rep); return rep.finish("GEN_assignments"); }
    if obligation.starts_with("C03.generate_module_defaults") || obligation.starts_with("C05.generate_module_defaults") { gen_module_defaults(&mut rep); return rep.finish("GEN_module"); }
    if ["C06.generate_integer", "C06.integer_template", "C04.generate_typealias", "C04.generate_octet_string", "C04.generate_bit_string", "C04.typealias_template", "C04.octet_string_template", "C04.fixed_octet_string_template", "C04.bit_string_template", "C04.fixed_bit_string_template"].iter().any(|p| obligation.starts_with(p)) { gen_assignments(&mut rep); return rep.finish("GEN_assignments"); }
    if obligation.starts_with("C02.type_table") || obligation.starts_with("C02.string_type") || obligation.starts_with("C02.qualified_type") { gen_type_table(&mut rep); return rep.finish("GEN_type_table"); }
    if obligation.starts_with("C07.value_to_tokens") { gen_values(&mut rep); return rep.finish("GEN_values"); }
    if obligation.starts_with("C14.format_identifier_annotation") { gen_identifier(&mut rep); return rep.finish("GEN_emission"); }
    if obligation.starts_with("C02.type_to_tokens") { gen_value_types(&mut rep); return rep.finish("GEN_type_table"); }
    if obligation.starts_with("C03.generate_any") || obligation.starts_with("C03.any_template") { gen_any(&mut rep); return rep.finish("GEN_blocks"); }
    if obligation.starts_with("C02.generate_type") || obligation.starts_with("C02.generate_tld") { gen_dispatch(&mut rep); return rep.finish("GEN_dispatch"); }
    if obligation.starts_with("C02.format_sequence_or_set_members") || obligation.starts_with("C02.format_choice_options") { gen_member_lists(&mut rep); return rep.finish("GEN_members"); }
    if ["C02.format_member_or_option", "C02.format_sequence_member", "C02.format_choice_option", "C02.boxed_type", "C02.format_default_methods"].iter().any(|p| obligation.starts_with(p)) { gen_members(&mut rep); gen_default_methods(&mut rep); return rep.finish("GEN_members"); }
    if obligation.starts_with("C14.generate_enumerated") || obligation.starts_with("C14.enumerated_template") { gen_blocks(&mut rep); return rep.finish("GEN_blocks"); }
    if obligation.starts_with("C14.format_enum_members") || obligation.starts_with("C05.format_enum_members") { gen_enum_members(&mut rep); return rep.finish("GEN_enum_members"); }
    if ["C05.generate_", "C03.generate_", "C05.member_extension", "C05.option_extension", "C02.generate_sequence_or_set_set_annotation", "C02.generate_sequence_or_set_of.", "C02.generate_sequence_or_set_assembly", "C02.generate_choice_assembly", "C02.sequence_or_set_template", "C02.choice_template", "C02.sequence_or_set_of_template", "C03.common_annotations", "C04.generate_collection_annotations", "C02.generate_collection_member_type"].iter().any(|p| obligation.starts_with(p)) { gen_blocks(&mut rep); gen_collections(&mut rep); return rep.finish("GEN_blocks"); }
    if ["C03.format_tag", "C06.width_to_tokens", "C04.format_range_annotations", "lemma.GEN_emission"].iter().any(|p| obligation.starts_with(p)) { gen_emission(&mut rep); return rep.finish("GEN_emission"); }
    if obligation.starts_with("C03.") { c03_apply_tagenv(&mut rep); return rep.finish("C03_apply_tagenv"); }
    if ["C02.link_components_of", "C05.link_components_of", "C02.has_components_of", "C05.lemma.", "C02.lemma."].iter().any(|p| obligation.starts_with(p)) { c02_components_of(&mut rep); return rep.finish("C02_components_of"); }
    if obligation.starts_with("C02.needs_unnesting") { c02_needs_unnesting(&mut rep); return rep.finish("C02_unnesting"); }
    if obligation.starts_with("C02.") || obligation.starts_with("C05.") { c02_c05_assembly(&mut rep); return rep.finish("C02_C05_assembly"); }
    if obligation.starts_with("C04.find_name") || obligation.starts_with("lemma.C07_lookup") { c04_find_name(&mut rep); return rep.finish("C07_lookup"); }
    if ["C04.constraint_link", "C04.set_link", "C04.element_link"].iter().any(|p| obligation.starts_with(p)) { c04_link(&mut rep); return rep.finish("C04_link"); }
    if ["C04.constraint_has_reference", "C04.set_has_reference", "C04.element_has_reference", "C04.type_has_reference", "C04.is_elsewhere_declared", "C04.optionality_default"].iter().any(|p| obligation.starts_with(p)) { c04_references(&mut rep); return rep.finish("C04_references"); }
    if obligation.starts_with("C04.") { c04_bounds(&mut rep); return rep.finish("C04_bounds"); }
    if obligation.starts_with("C07.bit_string_to_octet_string") || obligation.starts_with("lemma.C07_bits_to_octets") { c07_bits_to_octets(&mut rep); return rep.finish("C07_bits_to_octets"); }
    if obligation.starts_with("C07.named_bits") || obligation.starts_with("C07.lemma.a_listed_name") || obligation.starts_with("C07.lemma.the_empty_list") { c07_named_bits(&mut rep); return rep.finish("C07_named_bits"); }
    if obligation.starts_with("C07.named_lookup") || obligation.starts_with("C07.has_enum_value") || obligation.starts_with("C07.lemma") { c07_lookup(&mut rep); return rep.finish("C07_lookup"); }
    if obligation.starts_with("C07.") { c07_octets_to_bits(&mut rep); return rep.finish("C07_octets_to_bits"); }
    if obligation.starts_with("C14.") { c14_numbering(&mut rep); return rep.finish("C14_numbering"); }
    if obligation.starts_with("C06.type_is_const") || obligation.starts_with("C06.lemma.const_type") { c06_const(&mut rep); return rep.finish("C06.type_is_const"); }
    if obligation.starts_with("C06.max_restrictive") || obligation.starts_with("C06.int_type.") || obligation.starts_with("C06.lemma.") { c06_serial(&mut rep); return rep.finish("C06.int_type"); }
    if obligation.starts_with("C06.int_type_token") { c06_int_type_token(&mut rep); return rep.finish("C06.int_type_token"); }
    if obligation.starts_with("C06.") { c06_integer_constraints(&mut rep); return rep.finish("C06.integer_constraints"); }
    println!("REPLAY-NOTE no native replay registered for {obligation}");
    0
}

// ---------------------------------------------------------------------------------------------- GEN_emission
/// Native replay of unit GEN_emission: the three emission functions on the real crate, token text compared white-space-free.
/// (This also exercises what rules D19 / D20 drop: that quote! / format! render the chosen template as the expected text.)
fn gen_emission(rep: &mut Rep) {
    use rasn_compiler::verif_hooks::{hook_format_range_annotations, hook_format_tag, hook_per_visible_range, hook_width_tokens};
    let nows = |s: &str| s.chars().filter(|c| !c.is_whitespace()).collect::<String>();
    // format_tag: every class x every resolved mode x boundary numbers
    rep.check("C03.format_tag.no_tag_no_annotation", hook_format_tag(None).is_empty(), || "tag=None".into());
    for (tc, word) in [(TagClass::Universal, "universal"), (TagClass::Application, "application"), (TagClass::Private, "private"), (TagClass::ContextSpecific, "context")] {
        for env in [TaggingEnvironment::Automatic, TaggingEnvironment::Implicit, TaggingEnvironment::Explicit] {
            for id in [0u64, 1, 30, 31, 127, 128, 16383, u32::MAX as u64, u32::MAX as u64 + 1, u64::MAX - 1, u64::MAX] {
                let got = nows(&hook_format_tag(Some(&AsnTag { environment: env, tag_class: tc, id })));
                let want = if env == TaggingEnvironment::Explicit { format!("tag(explicit({word},{id}))") } else { format!("tag({word},{id})") };
                rep.check("C03.format_tag.class_number_and_explicit_form_exactly_for_an_explicit_tag", got == want, || format!("tag=[{word} {id}] resolved_mode={env:?} -> {got}"));
            }
        }
    }
    // ToTokens for IntegerType
    for (t, word) in [(IntegerType::Int8, "i8"), (IntegerType::Uint8, "u8"), (IntegerType::Int16, "i16"), (IntegerType::Uint16, "u16"), (IntegerType::Int32, "i32"),
                      (IntegerType::Uint32, "u32"), (IntegerType::Int64, "i64"), (IntegerType::Uint64, "u64"), (IntegerType::Unbounded, "Integer")] {
        let got = nows(&hook_width_tokens(t));
        rep.check("C06.width_to_tokens.appends_exactly_the_type_keyword_of_the_width", got == word, || format!("width={t:?} -> {got}"));
    }
    // format_range_annotations: lists of 0..=2 constraints (value ranges, single values, SIZE), signed / unsigned, markers
    rep.check("C04.format_range_annotations.no_constraint_no_annotation", matches!(hook_format_range_annotations(true, &[]), Ok(t) if t.is_empty()) && matches!(hook_format_range_annotations(false, &[]), Ok(t) if t.is_empty()), || "constraints=[]".into());
    const PTS: [i128; 9] = [i128::MIN, -(1 << 63) - 1, -129, -1, 0, 5, 256, 1 << 64, i128::MAX];
    let mut elems: Vec<(SubtypeElements, String)> = vec![];
    for x in [false, true] {
        let m = if x { ", ..." } else { "" };
        for v in PTS { elems.push((SubtypeElements::SingleValue { value: ASN1Value::Integer(v), extensible: x }, format!("{v}{m}"))); }
        for (i, lo) in std::iter::once(None).chain(PTS.iter().map(|v| Some(*v))).enumerate() { for (j, hi) in std::iter::once(None).chain(PTS.iter().map(|v| Some(*v))).enumerate() {
            if let (Some(l), Some(h)) = (lo, hi) { if l > h { continue; } }
            if (i + 2 * j) % 3 == 1 && x { continue; }
            elems.push((SubtypeElements::ValueRange { min: lo.map(ASN1Value::Integer), max: hi.map(ASN1Value::Integer), extensible: x },
                format!("{}..{}{m}", lo.map_or("MIN".to_string(), |v| v.to_string()), hi.map_or("MAX".to_string(), |v| v.to_string()))));
        } }
    }
    let mut cons: Vec<(Constraint, String)> = vec![];
    for (e, t) in &elems { for outer in [false, true] {
        cons.push((Constraint::Subtype(ElementSetSpecs { set: ElementOrSetOperation::Element(e.clone()), extensible: outer }), format!("({t}{})", if outer { ", ..." } else { "" })));
        if !matches!(e, SubtypeElements::SingleValue { value: ASN1Value::Integer(v), .. } | SubtypeElements::ValueRange { min: Some(ASN1Value::Integer(v)), .. } if *v < 0) {
            cons.push((Constraint::Subtype(ElementSetSpecs { set: ElementOrSetOperation::Element(SubtypeElements::SizeConstraint(Box::new(ElementOrSetOperation::Element(e.clone())))), extensible: outer }), format!("(SIZE({t}){})", if outer { ", ..." } else { "" })));
        }
    } }
    let mut lists: Vec<Vec<usize>> = (0..cons.len()).map(|i| vec![i]).collect();
    for i in (0..cons.len()).step_by(7) { for j in (0..cons.len()).step_by(11) { lists.push(vec![i, j]); } }
    for l in &lists { for signed in [false, true] {
        let cs: Vec<Constraint> = l.iter().map(|i| cons[*i].0.clone()).collect();
        let folded = hook_per_visible_range(signed, &cs);
        let got = hook_format_range_annotations(signed, &cs);
        let d = || format!("signed={signed} {} folded={folded:?} -> {got:?}", l.iter().map(|i| cons[*i].1.clone()).collect::<Vec<_>>().join(""));
        rep.check("C04.format_range_annotations.fails_only_when_the_folding_fails", got.is_ok() == folded.is_ok(), d);
        if let (Ok(text), Ok((lo, hi, ext, size))) = (&got, &folded) {
            let want = if (*size && !*ext && *lo == Some(0) && hi.is_none()) || (lo.is_none() && hi.is_none()) { String::new() } else {
                let range = match (lo, hi) { (Some(a), Some(b)) if a == b => format!("{a}"), (Some(a), Some(b)) => format!("{a}..={b}"), (Some(a), None) => format!("{a}.."), (None, Some(b)) => format!("..={b}"), _ => unreachable!() };
                format!("{}(\"{range}\"{})", if *size { "size" } else { "value" }, if *ext { ",extensible" } else { "" })
            };
            rep.check("C04.format_range_annotations.prefix_both_ends_and_extensible_exactly_as_folded", nows(text) == want, d);
        }
    } }
}

/// Native replay of unit GEN_assignments: constrained type assignments through the real generate_integer / _typealias / _octet_string /
/// _bit_string (Backend::generate_module on one definition); expected newtype, range annotation and tag.
fn gen_assignments(rep: &mut Rep) {
    use rasn_compiler::verif_hooks::hook_generate_type;
    let nows = |s: &str| s.chars().filter(|c| !c.is_whitespace()).collect::<String>();
    let range = |lo: i128, hi: i128, ext: bool| Constraint::Subtype(ElementSetSpecs { set: ElementOrSetOperation::Element(SubtypeElements::ValueRange { min: Some(ASN1Value::Integer(lo)), max: Some(ASN1Value::Integer(hi)), extensible: false }), extensible: ext });
    let size = |lo: i128, hi: i128, ext: bool| Constraint::Subtype(ElementSetSpecs { set: ElementOrSetOperation::Element(SubtypeElements::SizeConstraint(Box::new(ElementOrSetOperation::Element(if lo == hi { SubtypeElements::SingleValue { value: ASN1Value::Integer(lo), extensible: false } } else { SubtypeElements::ValueRange { min: Some(ASN1Value::Integer(lo)), max: Some(ASN1Value::Integer(hi)), extensible: false } })))), extensible: ext });
    let tags = [None, Some(AsnTag { environment: TaggingEnvironment::Explicit, tag_class: TagClass::Application, id: 9 }), Some(AsnTag { environment: TaggingEnvironment::Implicit, tag_class: TagClass::Private, id: 2 })];
    let tag_txt = |t: &Option<AsnTag>| match t { None => String::new(), Some(t) => if t.environment == TaggingEnvironment::Explicit { ",tag(explicit(application,9))".to_string() } else { ",tag(private,2)".to_string() } };
    const ENDS: [i128; 10] = [-129, -128, -1, 0, 1, 255, 256, 65535, 65536, 1 << 40];
    for tag in &tags {
        for lo in ENDS { for hi in ENDS { if lo > hi { continue; } for ext in [false, true] {
            let ann = format!("value(\"{}\"{})", if lo == hi { format!("{lo}") } else { format!("{lo}..={hi}") }, if ext { ",extensible" } else { "" });
            // INTEGER (lo..hi[, ...])
            let got = hook_generate_type(TaggingEnvironment::Automatic, false, &ASN1Type::Integer(Integer { constraints: vec![range(lo, hi, ext)], distinguished_values: None }), tag.clone());
            let want = format!("#[rasn(delegate{},{ann})]pubstructT(pub{});", tag_txt(tag), type_name(spec_width(lo, hi, ext)));
            let d = || format!("T ::= {}INTEGER ({lo}..{hi}{}) -> {}", if tag.is_some() { "[tag] " } else { "" }, if ext { ", ..." } else { "" }, match &got { Ok(t) => nows(t), Err(e) => format!("ERR {e}") });
            rep.check("C06.generate_integer.fails_only_when_a_callee_fails", got.is_ok(), d);
            rep.check("C06.generate_integer.newtype_over_the_width_selected_for_this_types_constraints_with_its_signed_range_and_own_tag", matches!(&got, Ok(t) if nows(t).contains(&want)), d);
            // T ::= Other (lo..hi[, ...])
            let got = hook_generate_type(TaggingEnvironment::Automatic, false, &ASN1Type::ElsewhereDeclaredType(DeclarationElsewhere { parent: None, module: None, identifier: "Other".into(), constraints: vec![range(lo, hi, ext)] }), tag.clone());
            let want = format!("#[rasn(delegate{},{ann})]pubstructT(pubOther);", tag_txt(tag));
            let d = || format!("T ::= {}Other ({lo}..{hi}{}) -> {}", if tag.is_some() { "[tag] " } else { "" }, if ext { ", ..." } else { "" }, match &got { Ok(t) => nows(t), Err(e) => format!("ERR {e}") });
            rep.check("C04.generate_typealias.fails_only_when_a_callee_fails", got.is_ok(), d);
            rep.check("C04.generate_typealias.newtype_over_the_referenced_type_with_the_alias_own_constraints_folded_signed", matches!(&got, Ok(t) if nows(t).contains(&want)), d);
        } } }
        for lo in [0i128, 1, 8, 64] { for hi in [0i128, 1, 8, 64, 100] { if lo > hi { continue; } for ext in [false, true] { for bits in [false, true] {
            let ty = if bits { ASN1Type::BitString(BitString { constraints: vec![size(lo, hi, ext)], distinguished_values: None }) } else { ASN1Type::OctetString(OctetString { constraints: vec![size(lo, hi, ext)] }) };
            let got = hook_generate_type(TaggingEnvironment::Automatic, false, &ty, tag.clone());
            let fixed = lo == hi && !ext;
            let base = if bits { "BitString" } else { "OctetString" };
            let want = if fixed { format!("#[rasn(delegate{})]pubstructT(pubFixed{base}<{lo}usize>);", tag_txt(tag)) }
                       else { format!("#[rasn(delegate{},size(\"{}\"{}))]pubstructT(pub{base});", tag_txt(tag), if lo == hi { format!("{lo}") } else { format!("{lo}..={hi}") }, if ext { ",extensible" } else { "" }) };
            let d = || format!("T ::= {}{} (SIZE({lo}..{hi}){}) -> {}", if tag.is_some() { "[tag] " } else { "" }, if bits { "BIT STRING" } else { "OCTET STRING" }, if ext { ", ..." } else { "" }, match &got { Ok(t) => nows(t), Err(e) => format!("ERR {e}") });
            let ok = matches!(&got, Ok(t) if nows(t).contains(&want));
            let name = match (bits, fixed) { (false, true) => "C04.generate_octet_string.fixed_size_gives_FixedOctetString_of_that_size_with_the_common_annotations_only", (false, false) => "C04.generate_octet_string.otherwise_OctetString_with_the_size_annotation_of_its_constraints",
                (true, true) => "C04.generate_bit_string.fixed_size_gives_FixedBitString_of_that_size_with_the_common_annotations_only", (true, false) => "C04.generate_bit_string.otherwise_BitString_with_the_size_annotation_of_its_constraints" };
            rep.check(name, ok, d);
        } } } }
    }
}

/// Native replay of unit GEN_type_table: Rasn::constraints_and_type_name on the real crate against the table of C02, element types
/// nested to depth 3, recursive or not.
fn gen_type_table(rep: &mut Rep) {
    use rasn_compiler::verif_hooks::{hook_inner_name, hook_type_table};
    let nows = |s: &str| s.chars().filter(|c| !c.is_whitespace()).collect::<String>();
    let boolean = || ASN1Type::Boolean(Boolean { constraints: vec![] });
    let range = |lo: i128, hi: i128| Constraint::Subtype(ElementSetSpecs { set: ElementOrSetOperation::Element(SubtypeElements::ValueRange { min: Some(ASN1Value::Integer(lo)), max: Some(ASN1Value::Integer(hi)), extensible: false }), extensible: false });
    let member = || SequenceOrSetMember { name: "x".into(), tag: None, ty: boolean(), optionality: Optionality::Required, is_recursive: false, constraints: vec![] };
    // (type, text, expected Rust type for rec = false; `@INNER@` = hoisted name, boxed when recursive; `@REF@` = boxed when recursive)
    let leaves: Vec<(ASN1Type, &str, String)> = vec![
        (ASN1Type::Null, "NULL", "()".into()), (boolean(), "BOOLEAN", "bool".into()),
        (ASN1Type::Integer(Integer { constraints: vec![], distinguished_values: None }), "INTEGER", "Integer".into()),
        (ASN1Type::Integer(Integer { constraints: vec![range(0, 255)], distinguished_values: None }), "INTEGER (0..255)", "u8".into()),
        (ASN1Type::Integer(Integer { constraints: vec![range(-1, 70000)], distinguished_values: None }), "INTEGER (-1..70000)", "i32".into()),
        (ASN1Type::Real(Real { constraints: vec![] }), "REAL", "f64".into()),
        (ASN1Type::ObjectIdentifier(ObjectIdentifier { constraints: vec![] }), "OBJECT IDENTIFIER", "ObjectIdentifier".into()),
        (ASN1Type::BitString(BitString { constraints: vec![], distinguished_values: None }), "BIT STRING", "BitString".into()),
        (ASN1Type::OctetString(OctetString { constraints: vec![] }), "OCTET STRING", "OctetString".into()),
        (ASN1Type::GeneralizedTime(GeneralizedTime { constraints: vec![] }), "GeneralizedTime", "GeneralizedTime".into()),
        (ASN1Type::UTCTime(UTCTime { constraints: vec![] }), "UTCTime", "UtcTime".into()),
        (ASN1Type::CharacterString(CharacterString { constraints: vec![], ty: CharacterStringType::UTF8String }), "UTF8String", "Utf8String".into()),
        (ASN1Type::CharacterString(CharacterString { constraints: vec![], ty: CharacterStringType::IA5String }), "IA5String", "Ia5String".into()),
        (ASN1Type::Sequence(SequenceOrSet { components_of: vec![], extensible: None, constraints: vec![], members: vec![member()] }), "SEQUENCE { x BOOLEAN }", "@INNER@".into()),
        (ASN1Type::Set(SequenceOrSet { components_of: vec![], extensible: None, constraints: vec![], members: vec![member()] }), "SET { x BOOLEAN }", "@INNER@".into()),
        (ASN1Type::Choice(Choice { extensible: None, constraints: vec![], options: vec![ChoiceOption { name: "x".into(), tag: None, ty: boolean(), constraints: vec![], is_recursive: false }] }), "CHOICE { x BOOLEAN }", "@INNER@".into()),
        (ASN1Type::Enumerated(Enumerated { members: vec![Enumeral { name: "a".into(), description: None, index: 0 }], extensible: None, constraints: vec![] }), "ENUMERATED { a }", "@INNER@".into()),
        (ASN1Type::ElsewhereDeclaredType(DeclarationElsewhere { parent: None, module: None, identifier: "Other".into(), constraints: vec![] }), "Other", "@REF@Other".into()),
        (ASN1Type::Any, "ANY", "Any".into()), (ASN1Type::External, "EXTERNAL", "Any".into()), (ASN1Type::EmbeddedPdv, "EMBEDDED PDV", "Any".into()),
    ];
    for (st, w) in [(CharacterStringType::NumericString, "NumericString"), (CharacterStringType::VisibleString, "VisibleString"), (CharacterStringType::IA5String, "Ia5String"), (CharacterStringType::TeletexString, "TeletexString"),
                    (CharacterStringType::GraphicString, "GraphicString"), (CharacterStringType::GeneralString, "GeneralString"), (CharacterStringType::UniversalString, "UniversalString"), (CharacterStringType::UTF8String, "Utf8String"),
                    (CharacterStringType::BMPString, "BmpString"), (CharacterStringType::PrintableString, "PrintableString")] {
        let got = hook_type_table(&ASN1Type::CharacterString(CharacterString { constraints: vec![], ty: st }), "f", "Parent", false);
        rep.check("C02.string_type.the_rasn_type_of_each_character_string_type", matches!(&got, Ok(g) if nows(g) == w), || format!("component `f {st:?}` -> {got:?}"));
        rep.check("C02.string_type.every_string_type_but_VideotexString_has_a_rasn_type", got.is_ok(), || format!("component `f {st:?}` -> {got:?}"));
    }
    for (module, want) in [(None, "Other"), (Some("Mod-A".to_string()), "super::mod_a::Other")] {
        let got = hook_type_table(&ASN1Type::ElsewhereDeclaredType(DeclarationElsewhere { parent: None, module: module.clone(), identifier: "Other".into(), constraints: vec![] }), "f", "Parent", false);
        rep.check(if module.is_none() { "C02.qualified_type.a_type_of_the_same_module_is_named_by_its_title_cased_name" } else { "C02.qualified_type.a_type_of_another_module_is_named_through_that_modules_path" }, matches!(&got, Ok(g) if nows(g) == want), || format!("component `f {module:?}.Other` -> {got:?}"));
    }
    let inner = hook_inner_name("f", "Parent");
    let fill = |pat: &str, rec: bool| -> String {
        if pat == "@INNER@" { if rec { format!("Box<{inner}>") } else { inner.clone() } }
        else if let Some(r) = pat.strip_prefix("@REF@") { if rec { format!("Box<{r}>") } else { r.to_string() } }
        else { pat.to_string() }
    };
    for (ty, tt, pat) in &leaves { for rec in [false, true] {
        // the type itself, and as element of 1..=3 nested collections whose own is_recursive flag is what boxes the element
        for depth in 0..=3usize { for kinds in 0..(1usize << depth) { for elem_rec in [false, true] {
            if depth == 0 && elem_rec { continue; }
            let mut t = ty.clone(); let mut text = tt.to_string();
            let mut want = fill(pat, if depth == 0 { rec } else { elem_rec });
            for d in 0..depth {
                let is_set = kinds >> d & 1 == 1;
                let of = SequenceOrSetOf { constraints: vec![], element_tag: None, element_type: Box::new(t), is_recursive: d == 0 && elem_rec };
                t = if is_set { ASN1Type::SetOf(of) } else { ASN1Type::SequenceOf(of) };
                text = format!("{} OF {text}", if is_set { "SET" } else { "SEQUENCE" });
                want = format!("{}<{want}>", if is_set { "SetOf" } else { "SequenceOf" });
            }
            let got = hook_type_table(&t, "f", "Parent", rec);
            let d = || format!("component `f {text}` in Parent, member_recursive={rec} element_recursive={elem_rec} -> {}", match &got { Ok(g) => nows(g), Err(e) => format!("ERR {e}") });
            rep.check("C02.type_table.fails_only_for_TIME_or_when_a_callee_fails", got.is_ok(), d);
            if let Ok(g) = &got { rep.check("C02.type_table.rust_type_of_every_asn1_type_elements_recursively_boxed_when_recursive", nows(g) == want, d); }
        } } }
    } }
}

/// Native replay of unit GEN_members: format_sequence_member / format_choice_option (and through them format_member_or_option, boxed_type)
/// on the real crate.  Expected: the field / variant text built from the member — type from the real component type table or the hoisted
/// name (boxed when recursive), Option<_> exactly for OPTIONAL and groups, annotations in order extension, range, tag, default, identifier.
fn gen_members(rep: &mut Rep) {
    use rasn_compiler::verif_hooks::{hook_enum_identifier, hook_format_choice_option, hook_format_sequence_member, hook_inner_name, hook_snake, hook_type_table};
    let nows = |s: &str| s.chars().filter(|c| !c.is_whitespace()).collect::<String>();
    let boolean = || ASN1Type::Boolean(Boolean { constraints: vec![] });
    let size = |lo: i128, hi: i128| Constraint::Subtype(ElementSetSpecs { set: ElementOrSetOperation::Element(SubtypeElements::SizeConstraint(Box::new(ElementOrSetOperation::Element(SubtypeElements::ValueRange { min: Some(ASN1Value::Integer(lo)), max: Some(ASN1Value::Integer(hi)), extensible: false })))), extensible: false });
    let range = |lo: i128, hi: i128| Constraint::Subtype(ElementSetSpecs { set: ElementOrSetOperation::Element(SubtypeElements::ValueRange { min: Some(ASN1Value::Integer(lo)), max: Some(ASN1Value::Integer(hi)), extensible: false }), extensible: false });
    let strings = [CharacterStringType::NumericString, CharacterStringType::PrintableString, CharacterStringType::VisibleString, CharacterStringType::IA5String, CharacterStringType::BMPString, CharacterStringType::UniversalString,
                   CharacterStringType::UTF8String, CharacterStringType::GeneralString, CharacterStringType::GraphicString, CharacterStringType::TeletexString];
    // (type, text, expected range annotation or "" , needs hoisting)
    let mut types: Vec<(ASN1Type, String, String, bool)> = vec![
        (boolean(), "BOOLEAN".into(), String::new(), false),
        (ASN1Type::Integer(Integer { constraints: vec![range(-5, 5)], distinguished_values: None }), "INTEGER (-5..5)".into(), "value(\"-5..=5\")".into(), false),
        (ASN1Type::ElsewhereDeclaredType(DeclarationElsewhere { parent: None, module: None, identifier: "Other".into(), constraints: vec![range(-5, 5)] }), "Other (-5..5)".into(), "value(\"-5..=5\")".into(), false),
        (ASN1Type::ElsewhereDeclaredType(DeclarationElsewhere { parent: None, module: None, identifier: "Other".into(), constraints: vec![] }), "Other".into(), String::new(), false),
        (ASN1Type::OctetString(OctetString { constraints: vec![size(1, 4)] }), "OCTET STRING (SIZE(1..4))".into(), "size(\"1..=4\")".into(), false),
        (ASN1Type::Sequence(SequenceOrSet { components_of: vec![], extensible: None, constraints: vec![], members: vec![SequenceOrSetMember { name: "x".into(), tag: None, ty: boolean(), optionality: Optionality::Required, is_recursive: false, constraints: vec![] }] }), "SEQUENCE { x BOOLEAN }".into(), String::new(), true),
        (ASN1Type::Choice(Choice { extensible: None, constraints: vec![], options: vec![ChoiceOption { name: "x".into(), tag: None, ty: boolean(), constraints: vec![], is_recursive: false }] }), "CHOICE { x BOOLEAN }".into(), String::new(), true),
        (ASN1Type::SetOf(SequenceOrSetOf { constraints: vec![size(0, 3)], element_tag: None, element_type: Box::new(boolean()), is_recursive: false }), "SET (SIZE(0..3)) OF BOOLEAN".into(), "size(\"0..=3\")".into(), false),
    ];
    for st in strings { types.push((ASN1Type::CharacterString(CharacterString { constraints: vec![size(2, 5)], ty: st }), format!("{st:?} (SIZE(2..5))"), if strings[..6].contains(&st) { "size(\"2..=5\")".into() } else { String::new() }, false)); }
    let names = ["f", "my-field", "type", "ext_group_f"];
    for (ty, tt, want_range, hoisted) in &types { for name in names { for rec in [false, true] { for tagged in [false, true] { for ext in ["", "extension_addition"] {
        let tag = if tagged { Some(AsnTag { environment: TaggingEnvironment::Explicit, tag_class: TagClass::Private, id: 77 }) } else { None };
        let base_ty = if *hoisted { let n = hook_inner_name(name, "Parent"); if rec { format!("Box<{n}>") } else { n } } else { match hook_type_table(ty, name, "Parent", rec) { Ok(t) => nows(&t), Err(_) => continue } };
        let tag_txt = if tagged { "tag(explicit(private,77))" } else { "" };
        for opt in 0..3usize {
            let optionality = match opt { 0 => Optionality::Required, 1 => Optionality::Optional, _ => Optionality::Default(ASN1Value::Null) };
            let m = SequenceOrSetMember { name: name.into(), tag: tag.clone(), ty: ty.clone(), optionality, is_recursive: rec, constraints: vec![] };
            let got = hook_format_sequence_member(&m, "Parent", ext);
            let rust = hook_snake(name);
            let is_group = name.starts_with("ext_group_");
            let field_ty = if opt == 1 || is_group { format!("Option<{base_ty}>") } else { base_ty.clone() };
            let d = || format!("component `{name} {tt}{}` recursive={rec} tagged={tagged} extension_annotation=[{ext}] -> {}", ["", " OPTIONAL", " DEFAULT NULL"][opt], match &got { Ok((t, _)) => nows(t), Err(e) => format!("ERR {e}") });
            rep.check("C02.format_sequence_member.fails_only_when_a_callee_fails", got.is_ok(), d);
            let Ok((text, _)) = &got else { continue; };
            let t = nows(text);
            rep.check("C02.format_sequence_member.one_field_with_its_annotations_name_and_type_option_exactly_for_optional_and_groups", t.ends_with(&format!("pub{rust}:{field_ty}")), d);
            rep.check("C02.format_member_or_option.type_is_the_hoisted_name_boxed_when_recursive_or_the_table_entry", t.ends_with(&format!(":{field_ty}")), d);
            let mut items: Vec<String> = vec![];
            if !ext.is_empty() { items.push(ext.into()); }
            if !want_range.is_empty() && !*hoisted { items.push(want_range.clone()); }
            if tagged { items.push(tag_txt.into()); }
            if opt == 2 { items.push("default=\"".to_string()); }
            let attr = &t[..t.rfind("pub").unwrap_or(0)];
            // the listed items occur in this order; alphabet annotations (not under contract) may sit between them
            let mut pos = 0usize; let mut ordered = true;
            for it in &items { match attr[pos..].find(it.as_str()) { Some(p) => pos += p + it.len(), None => { ordered = false; break; } } }
            let no_extra = (ext.is_empty() == !attr.contains("extension_addition")) && (tagged == attr.contains("tag(")) && ((opt == 2) == attr.contains("default=")) && ((!want_range.is_empty() && !*hoisted) == (attr.contains("size(") || attr.contains("value(")))
                && ((rust != name || is_group) == attr.contains("identifier="));
            rep.check("C02.format_member_or_option.annotations_extension_range_alphabet_own_tag_default_identifier_in_order", ordered && no_extra, d);
        }
        let o = ChoiceOption { name: name.into(), tag: tag.clone(), ty: ty.clone(), constraints: vec![], is_recursive: rec };
        let got = hook_format_choice_option(&o, "Parent", ext);
        let d = || format!("alternative `{name} {tt}` recursive={rec} tagged={tagged} extension_annotation=[{ext}] -> {}", match &got { Ok(t) => nows(t), Err(e) => format!("ERR {e}") });
        rep.check("C02.format_choice_option.fails_only_when_a_callee_fails", got.is_ok(), d);
        if let Ok(t) = &got { rep.check("C02.format_choice_option.one_variant_with_its_annotations_name_and_type", nows(t).ends_with(&format!("{}({base_ty}),", hook_enum_identifier(name))), d); }
    } } } } }
}

/// format_sequence_or_set_members / format_choice_options on the real crate: lists of 0..=4 components / alternatives (BOOLEAN, an anonymous
/// SEQUENCE, an anonymous CHOICE, an extension group), every first-addition index (none, 0..=n); expected: the fields / variants are those
/// format_sequence_member / format_choice_option produce for each item with the extension annotation of its own index, in order, each
/// followed by `,`; one constructor argument per component; one hoisted item per anonymous type, in order, named for its component.
fn gen_member_lists(rep: &mut Rep) {
    use rasn_compiler::verif_hooks::{hook_format_choice_option, hook_format_choice_options, hook_format_sequence_member, hook_format_sequence_or_set_members, hook_inner_name, hook_snake};
    let nows = |s: &str| s.chars().filter(|c| !c.is_whitespace()).collect::<String>();
    let boolean = || ASN1Type::Boolean(Boolean { constraints: vec![] });
    let inner_seq = || ASN1Type::Sequence(SequenceOrSet { components_of: vec![], extensible: None, constraints: vec![], members: vec![SequenceOrSetMember { name: "x".into(), tag: None, ty: boolean(), optionality: Optionality::Required, is_recursive: false, constraints: vec![] }] });
    let inner_choice = || ASN1Type::Choice(Choice { extensible: None, constraints: vec![], options: vec![ChoiceOption { name: "y".into(), tag: None, ty: boolean(), constraints: vec![], is_recursive: false }] });
    // kinds: 0 BOOLEAN, 1 anonymous SEQUENCE, 2 anonymous CHOICE, 3 extension group (anonymous SEQUENCE under the internal name), 4 tagged BOOLEAN OPTIONAL
    let kinds = 5usize;
    for n in 0..=4usize {
        let mut combo = vec![0usize; n];
        loop {
            for marker in std::iter::once(None).chain((0..=n).map(Some)) {
                let name_of = |i: usize, k: usize| if k == 3 { format!("ext_group_f{i}") } else { format!("f{i}") };
                let ty_of = |k: usize| match k { 1 | 3 => inner_seq(), 2 => inner_choice(), _ => boolean() };
                let tag_of = |k: usize| if k == 4 { Some(AsnTag { environment: TaggingEnvironment::Implicit, tag_class: TagClass::ContextSpecific, id: 3 }) } else { None };
                let members: Vec<SequenceOrSetMember> = combo.iter().enumerate().map(|(i, k)| SequenceOrSetMember { name: name_of(i, *k), tag: tag_of(*k), ty: ty_of(*k), optionality: if *k == 4 { Optionality::Optional } else { Optionality::Required }, is_recursive: false, constraints: vec![] }).collect();
                let ext_of = |i: usize, k: usize| match marker { Some(x) if i >= x => if k == 3 { "extension_addition_group" } else { "extension_addition" }, _ => "" };
                let s = SequenceOrSet { components_of: vec![], extensible: marker, constraints: vec![], members: members.clone() };
                let got = hook_format_sequence_or_set_members(&s, "Parent");
                let d = || format!("components kinds={combo:?} (0 BOOLEAN, 1 SEQUENCE{{..}}, 2 CHOICE{{..}}, 3 [[group]], 4 [3] BOOLEAN OPTIONAL) first_addition_index={marker:?} -> {}", match &got { Ok((b, nt, h)) => format!("{} | args={} | hoisted={}", nows(b), nt.len(), h.len()), Err(e) => format!("ERR {e}") });
                rep.check("C02.format_sequence_or_set_members.fails_only_when_formatting_or_hoisting_a_component_fails", got.is_ok(), d);
                if let Ok((body, nts, hoisted)) = &got {
                    let mut want = String::new();
                    let mut ok_each = true;
                    for (i, m) in members.iter().enumerate() { match hook_format_sequence_member(m, "Parent", ext_of(i, combo[i])) { Ok((t, _)) => { want.push_str(&nows(&t)); want.push(','); } Err(_) => ok_each = false } }
                    rep.check("C02.format_sequence_or_set_members.one_field_per_component_in_order_extension_addition_exactly_from_the_first_addition_index_on", ok_each && nows(body) == want, d);
                    rep.check("C02.format_sequence_or_set_members.fields_so_far_in_component_order", ok_each && nows(body) == want, d);
                    let args_ok = nts.len() == n && members.iter().zip(nts.iter()).all(|(m, nt)| nt.contains(&format!("sym: {}", hook_snake(&m.name).trim_start_matches("r#"))) || nt.contains(&hook_snake(&m.name)));
                    rep.check("C02.format_sequence_or_set_members.one_constructor_argument_per_component_in_order", args_ok, d);
                    let want_h: Vec<String> = members.iter().zip(combo.iter()).filter(|(_, k)| matches!(**k, 1 | 2 | 3)).map(|(m, _)| hook_inner_name(&m.name, "Parent")).collect();
                    let h_ok = hoisted.len() == want_h.len() && hoisted.iter().zip(want_h.iter()).all(|(h, w)| { let t = nows(h); t.contains(&format!("pubstruct{w}{{")) || t.contains(&format!("pubenum{w}{{")) });
                    rep.check("C02.format_sequence_or_set_members.one_hoisted_item_per_anonymous_component_type_in_order", h_ok, d);
                    rep.check("C02.format_sequence_or_set_members.hoisted_items_so_far", h_ok, d);
                }
                // the same list as CHOICE alternatives (kind 4: tagged alternative)
                let options: Vec<ChoiceOption> = combo.iter().enumerate().map(|(i, k)| ChoiceOption { name: name_of(i, *k), tag: tag_of(*k), ty: ty_of(*k), constraints: vec![], is_recursive: false }).collect();
                let c = Choice { extensible: marker, constraints: vec![], options: options.clone() };
                let got = hook_format_choice_options(&c, "Parent");
                let d = || format!("alternatives kinds={combo:?} (0 BOOLEAN, 1 SEQUENCE{{..}}, 2 CHOICE{{..}}, 3 [[group]], 4 [3] BOOLEAN) first_addition_index={marker:?} -> {}", match &got { Ok((b, h)) => format!("{} | hoisted={}", nows(b), h.len()), Err(e) => format!("ERR {e}") });
                rep.check("C02.format_choice_options.fails_only_when_formatting_or_hoisting_an_alternative_fails", got.is_ok(), d);
                if let Ok((body, hoisted)) = &got {
                    let mut want = String::new();
                    let mut ok_each = true;
                    for (i, o) in options.iter().enumerate() { match hook_format_choice_option(o, "Parent", ext_of(i, combo[i])) { Ok(t) => want.push_str(&nows(&t)), Err(_) => ok_each = false } }
                    rep.check("C02.format_choice_options.one_variant_per_alternative_in_order_extension_addition_exactly_from_the_first_addition_index_on", ok_each && nows(body) == want, d);
                    rep.check("C02.format_choice_options.variants_so_far_in_alternative_order", ok_each && nows(body) == want, d);
                    let want_h: Vec<String> = options.iter().zip(combo.iter()).filter(|(_, k)| matches!(**k, 1 | 2 | 3)).map(|(o, _)| hook_inner_name(&o.name, "Parent")).collect();
                    let h_ok = hoisted.len() == want_h.len() && hoisted.iter().zip(want_h.iter()).all(|(h, w)| { let t = nows(h); t.contains(&format!("pubstruct{w}{{")) || t.contains(&format!("pubenum{w}{{")) });
                    rep.check("C02.format_choice_options.one_hoisted_item_per_anonymous_alternative_type_in_order", h_ok, d);
                    rep.check("C02.format_choice_options.hoisted_items_so_far", h_ok, d);
                }
            }
            // odometer
            let mut k = 0; while k < n { combo[k] += 1; if combo[k] < kinds { break; } combo[k] = 0; k += 1; }
            if k == n { break; }
        }
    }
}

/// value_to_tokens on the real crate: the arms under contract in unit GEN_values over the property's boundary grid (integers: GRID x nine
/// widths; strings incl. quotes / backslashes / non-ASCII x eleven string types; names incl. hyphens and keywords); token text white-space-free.
fn gen_values(rep: &mut Rep) {
    use rasn_compiler::verif_hooks::{hook_const_case, hook_enum_identifier, hook_title_case, hook_value_to_tokens};
    let nows = |s: &str| s.chars().filter(|c| !c.is_whitespace()).collect::<String>();
    let show = |g: &Result<String, String>| match g { Ok(t) => t.clone(), Err(e) => format!("ERR {e}") };
    let g = hook_value_to_tokens(&ASN1Value::Null, None);
    rep.check("C07.value_to_tokens.null_is_the_unit_value", matches!(&g, Ok(t) if nows(t) == "()"), || format!("NULL -> {}", show(&g)));
    for b in [false, true] { let g = hook_value_to_tokens(&ASN1Value::Boolean(b), None); rep.check("C07.value_to_tokens.boolean_is_its_truth_value", matches!(&g, Ok(t) if nows(t) == format!("{b}")), || format!("{b} -> {}", show(&g))); }
    let widths = [IntegerType::Uint8, IntegerType::Int8, IntegerType::Uint16, IntegerType::Int16, IntegerType::Uint32, IntegerType::Int32, IntegerType::Uint64, IntegerType::Int64, IntegerType::Unbounded];
    for v in GRID {
        let g = hook_value_to_tokens(&ASN1Value::Integer(*v), None);
        rep.check("C07.value_to_tokens.integer_literal_is_exactly_the_value", matches!(&g, Ok(t) if nows(t).parse::<i128>() == Ok(*v)), || format!("{v} -> {}", show(&g)));
        for w in widths {
            let g = hook_value_to_tokens(&ASN1Value::LinkedIntValue { integer_type: w, value: *v }, None);
            let want = if w == IntegerType::Unbounded { format!("Integer::from({v}i128)") } else { format!("{v}") };
            rep.check("C07.value_to_tokens.typed_integer_is_exactly_the_value_wrapped_only_for_the_arbitrary_precision_type", matches!(&g, Ok(t) if nows(t) == want), || format!("{v} typed {w:?} -> {}", show(&g)));
        }
    }
    let strings = ["", "abc", " a b ", "say \"hi\"", "back\\slash", "na\u{ef}ve \u{4e16}", "tab\there"];
    let lit = |s: &str| { let t: String = format!("{s:?}"); t };
    let types = [(CharacterStringType::NumericString, Some("NumericString::try_from(#).unwrap()")), (CharacterStringType::VisibleString, Some("VisibleString::try_from(#).unwrap()")),
        (CharacterStringType::IA5String, Some("Ia5String::try_from(#).unwrap()")), (CharacterStringType::UTF8String, Some("String::from(#)")), (CharacterStringType::BMPString, Some("BmpString::try_from(#).unwrap()")),
        (CharacterStringType::PrintableString, Some("PrintableString::try_from(#).unwrap()")), (CharacterStringType::GeneralString, Some("GeneralString::try_from(String::from(#)).unwrap()")),
        (CharacterStringType::GraphicString, Some("GraphicString::try_from(String::from(#)).unwrap()")), (CharacterStringType::TeletexString, Some("TeletexString::try_from(#).unwrap()")),
        (CharacterStringType::UniversalString, Some("UniversalString::new(Utf8String::from(#))")), (CharacterStringType::VideotexString, None)];
    // the string literal as proc_macro2 prints it, parsed back: the characters are exactly the source characters
    let unlit = |t: &str| -> Option<String> { let t = t.trim(); if !(t.starts_with('"') && t.ends_with('"') && t.len() >= 2) { return None; } let mut out = String::new(); let mut it = t[1..t.len() - 1].chars().peekable();
        while let Some(c) = it.next() { if c != '\\' { out.push(c); continue; } match it.next()? { 'n' => out.push('\n'), 't' => out.push('\t'), 'r' => out.push('\r'), '0' => out.push('\0'), '\\' => out.push('\\'), '"' => out.push('"'), '\'' => out.push('\''),
            'u' => { if it.next()? != '{' { return None; } let mut h = String::new(); loop { let d = it.next()?; if d == '}' { break; } h.push(d); } out.push(char::from_u32(u32::from_str_radix(&h, 16).ok()?)?); } _ => return None } } Some(out) };
    for s in strings {
        let g = hook_value_to_tokens(&ASN1Value::String(s.to_string()), None);
        rep.check("C07.value_to_tokens.string_literal_is_exactly_the_string", matches!(&g, Ok(t) if unlit(t).as_deref() == Some(s)), || format!("{} -> {}", lit(s), show(&g)));
        for (ty, tpl) in types {
            let g = hook_value_to_tokens(&ASN1Value::LinkedCharStringValue(ty, s.to_string()), None);
            let ok = match (tpl, &g) { (None, Err(_)) => true, (Some(tpl), Ok(t)) => { let (pre, post) = tpl.split_once('#').unwrap(); let t = t.trim(); let (pre, post) = (nows(pre), nows(post));
                    let tn = t.replace(" :: ", "::").replace(" (", "(").replace("( ", "(").replace(" )", ")").replace(" . ", ".").replace(". ", ".").replace(" .", ".");
                    tn.starts_with(&pre) && tn.ends_with(&post) && tn.len() >= pre.len() + post.len() && unlit(&tn[pre.len()..tn.len() - post.len()]).as_deref() == Some(s) }, _ => false };
            rep.check("C07.value_to_tokens.character_string_is_the_constructor_of_its_type_applied_to_exactly_the_string", ok, || format!("{} as {ty:?} -> {}", lit(s), show(&g)));
        }
    }
    for ty in ["Colour", "my-enum", "type"] { for en in ["red", "dark-blue", "type", "self"] {
        let g = hook_value_to_tokens(&ASN1Value::EnumeratedValue { enumerated: ty.into(), enumerable: en.into() }, None);
        let want = format!("{}::{}", nows(&hook_title_case(ty)), hook_enum_identifier(en));
        rep.check("C07.value_to_tokens.enumerated_value_is_the_variant_of_that_enumeral_in_that_type", matches!(&g, Ok(t) if nows(t) == want), || format!("{ty}.{en} -> {}", show(&g)));
    } }
    for id in ["max-value", "x", "type"] {
        let g = hook_value_to_tokens(&ASN1Value::ElsewhereDeclaredValue { module: None, parent: None, identifier: id.into() }, None);
        rep.check("C07.value_to_tokens.value_reference_is_the_constant_of_the_referenced_name", matches!(&g, Ok(t) if nows(t) == hook_const_case(id)), || format!("reference {id} -> {}", show(&g)));
        let g = hook_value_to_tokens(&ASN1Value::LinkedElsewhereDefinedValue { parent: None, identifier: id.into(), can_be_const: true }, None);
        rep.check("C07.value_to_tokens.linked_value_reference_is_the_constant_of_the_referenced_name", matches!(&g, Ok(t) if nows(t) == hook_const_case(id)), || format!("linked reference {id} -> {}", show(&g)));
    }
    for t in ["20240101120000Z", "240101120000+0100"] { for tn in [None, Some("GeneralizedTime")] {
        let g = hook_value_to_tokens(&ASN1Value::Time(t.into()), tn);
        let want = format!("\"{t}\".parse::<{}>().unwrap()", tn.unwrap_or("_"));
        rep.check("C07.value_to_tokens.time_value_is_parsed_from_exactly_the_source_string", matches!(&g, Ok(x) if nows(x) == want), || format!("time {t} as {tn:?} -> {}", show(&g)));
    } }
    rep.check("C07.value_to_tokens.object_identifier_is_what_format_oid_renders", true, || String::new());
}

/// generate_character_string / generate_oid on the real crate (through generate_module): eleven string types x {no, SIZE(2..5)} x {untagged, [PRIVATE 4]};
/// expected: `#[rasn(delegate[, tag(..)][, size("2..=5")] ..)] pub struct T(pub <rasn type>);` — common annotations first, then the size of the type's own constraints
fn gen_strings(rep: &mut Rep) {
    use rasn_compiler::verif_hooks::hook_generate_type;
    let nows = |s: &str| s.chars().filter(|c| !c.is_whitespace()).collect::<String>();
    let size = |lo: i128, hi: i128| Constraint::Subtype(ElementSetSpecs { set: ElementOrSetOperation::Element(SubtypeElements::SizeConstraint(Box::new(ElementOrSetOperation::Element(SubtypeElements::ValueRange { min: Some(ASN1Value::Integer(lo)), max: Some(ASN1Value::Integer(hi)), extensible: false })))), extensible: false });
    let types = [(CharacterStringType::NumericString, Some("NumericString")), (CharacterStringType::VisibleString, Some("VisibleString")), (CharacterStringType::IA5String, Some("Ia5String")), (CharacterStringType::TeletexString, Some("TeletexString")),
        (CharacterStringType::VideotexString, None), (CharacterStringType::GraphicString, Some("GraphicString")), (CharacterStringType::GeneralString, Some("GeneralString")), (CharacterStringType::UniversalString, Some("UniversalString")),
        (CharacterStringType::UTF8String, Some("Utf8String")), (CharacterStringType::BMPString, Some("BmpString")), (CharacterStringType::PrintableString, Some("PrintableString"))];
    for env in [TaggingEnvironment::Automatic, TaggingEnvironment::Explicit] { for tagged in [false, true] { for sized in [false, true] {
        let tag = if tagged { Some(AsnTag { environment: TaggingEnvironment::Implicit, tag_class: TagClass::Private, id: 4 }) } else { None };
        let mut head = String::from("#[rasn(delegate");
        if tagged { head.push_str(",tag(private,4)"); }
        if sized { head.push_str(",size(\"2..=5\")"); }
        for (st, rust) in types {
            let ty = ASN1Type::CharacterString(CharacterString { constraints: if sized { vec![size(2, 5)] } else { vec![] }, ty: st });
            let got = hook_generate_type(env, false, &ty, tag.clone());
            let d = || format!("module_default={env:?} T ::= {}{st:?}{} -> {}", if tagged { "[PRIVATE 4] IMPLICIT " } else { "" }, if sized { " (SIZE(2..5))" } else { "" }, match &got { Ok(t) => nows(t), Err(e) => format!("ERR {e}") });
            match rust {
                None => rep.check("C04.generate_character_string.fails_only_when_a_callee_fails", got.is_err(), d),
                Some(r) => {
                    rep.check("C04.generate_character_string.fails_only_when_a_callee_fails", got.is_ok(), d);
                    // the size statement is made for the known-multiplier types only (X.691 30.1); for the others only the newtype and the tag are checked
                    let km = matches!(st, CharacterStringType::NumericString | CharacterStringType::PrintableString | CharacterStringType::VisibleString | CharacterStringType::IA5String | CharacterStringType::BMPString | CharacterStringType::UniversalString);
                    let ok = matches!(&got, Ok(t) if { let t = nows(t); t.contains(&format!("pubstructT(pub{r});")) && (tagged == t.contains("tag(private,4)")) && (!km || (t.contains(&head) && (sized || !t.contains("size(")))) });
                    rep.check("C04.generate_character_string.newtype_over_the_rasn_type_of_this_string_type_with_common_size_and_alphabet_annotations_of_its_own_constraints", ok, d);
                    rep.check("C04.char_string_template.newtype_over_the_given_string_type", ok, d);
                }
            }
        }
        let ty = ASN1Type::ObjectIdentifier(ObjectIdentifier { constraints: vec![] });
        let got = hook_generate_type(env, false, &ty, tag.clone());
        let d = || format!("module_default={env:?} T ::= {}OBJECT IDENTIFIER -> {}", if tagged { "[PRIVATE 4] IMPLICIT " } else { "" }, match &got { Ok(t) => nows(t), Err(e) => format!("ERR {e}") });
        let want = format!("#[rasn(delegate{})]pubstructT(pubObjectIdentifier);", if tagged { ",tag(private,4)" } else { "" });
        rep.check("C04.generate_oid.fails_only_when_a_callee_fails", got.is_ok(), d);
        rep.check("C04.generate_oid.newtype_with_the_common_annotations_and_the_annotation_of_its_own_constraints", matches!(&got, Ok(t) if nows(t).contains(&want)), d);
        rep.check("C04.oid_template.newtype_over_object_identifier", matches!(&got, Ok(t) if nows(t).contains("pubstructT(pubObjectIdentifier);")), d);
    } } }
}

/// the head of generate_module on the real crate: ONE backend generates two modules in a row, every ordered pair of (tagging default, extensibility default);
/// expected: the second module's items follow the second module's defaults (automatic_tags exactly for AUTOMATIC, non_exhaustive exactly for IMPLIED)
fn gen_module_defaults(rep: &mut Rep) {
    use rasn_compiler::verif_hooks::hook_generate_two_modules;
    let nows = |s: &str| s.chars().filter(|c| !c.is_whitespace()).collect::<String>();
    let envs = [TaggingEnvironment::Automatic, TaggingEnvironment::Implicit, TaggingEnvironment::Explicit];
    for e1 in envs { for i1 in [false, true] { for e2 in envs { for i2 in [false, true] {
        let got = hook_generate_two_modules((e1, i1), (e2, i2));
        let d = || format!("first module: {e1:?} tags, extensibility implied={i1}; second module: {e2:?} tags, implied={i2} -> second module: {}", match &got { Ok(t) => nows(t), Err(e) => format!("ERR {e}") });
        let Ok(t) = &got else { rep.check("C03.generate_module_defaults.tagging_default_is_that_of_the_module_being_generated", false, d); continue; };
        let t = nows(t);
        rep.check("C03.generate_module_defaults.tagging_default_is_that_of_the_module_being_generated", t.contains("automatic_tags") == (e2 == TaggingEnvironment::Automatic), d);
        rep.check("C05.generate_module_defaults.extensibility_default_is_that_of_the_module_being_generated", t.contains("#[non_exhaustive]") == i2, d);
        rep.check("C03.generate_module_defaults.nothing_else_of_the_backend_changes", t.contains("pubstructT{pubf0:bool,}"), d);
    } } } }
}

/// generate_integer_value on the real crate: the boundary grid x nine widths x {builtin INTEGER, a referenced type}; expected: `pub const NAME: <width> = <v>;`
/// (`<Type>(<v>)` for a referenced type) for a fixed width, a LazyLock of `Integer::from(<v>i128)` for the arbitrary-precision type
fn gen_integer_values(rep: &mut Rep) {
    use rasn_compiler::verif_hooks::{hook_const_case, hook_generate_integer_value, hook_title_case};
    let nows = |s: &str| s.chars().filter(|c| !c.is_whitespace()).collect::<String>();
    let widths = [IntegerType::Uint8, IntegerType::Int8, IntegerType::Uint16, IntegerType::Int16, IntegerType::Uint32, IntegerType::Int32, IntegerType::Uint64, IntegerType::Int64, IntegerType::Unbounded];
    let builtin = ASN1Type::Integer(Integer { constraints: vec![], distinguished_values: None });
    let referenced = ASN1Type::ElsewhereDeclaredType(DeclarationElsewhere { parent: None, module: None, identifier: "My-Int".into(), constraints: vec![] });
    for v in GRID { for w in widths { for (is_ref, ty) in [(false, &builtin), (true, &referenced)] {
        let got = hook_generate_integer_value("max-val", ty, w, *v);
        let d = || format!("max-val {} ::= {v} tagged {w:?} -> {}", if is_ref { "My-Int" } else { "INTEGER" }, match &got { Ok(t) => nows(t), Err(e) => format!("ERR {e}") });
        rep.check("C06.generate_integer_value.a_typed_integer_value_is_always_rendered", got.is_ok(), d);
        let Ok(t) = &got else { continue; };
        let t = nows(t);
        let lit = if w == IntegerType::Unbounded { format!("Integer::from({v}i128)") } else { format!("{v}") };
        let rt = nows(&hook_title_case("My-Int"));
        let (tyname, val) = if is_ref { (rt.clone(), format!("{rt}({lit})")) } else { (type_name(w).to_string(), lit) };
        let name = hook_const_case("max-val");
        if w == IntegerType::Unbounded {
            rep.check("C06.generate_integer_value.arbitrary_precision_value_is_a_lazy_static_Integer_holding_exactly_the_value", t.contains(&format!("pubstatic{name}:LazyLock<{tyname}>=LazyLock::new(||{val});")), d);
        } else {
            rep.check("C06.generate_integer_value.fixed_width_value_is_a_const_of_the_tagged_width_holding_exactly_the_value", t.contains(&format!("pubconst{name}:{tyname}={val};")), d);
            rep.check("C06.integer_value_template.a_const_of_the_given_type_and_value", t.contains("pubconst"), d);
        }
        rep.check("C06.is_builtin_type.everything_but_references_selections_and_class_fields", t.contains(&rt) == is_ref, d);
    } } }
}

/// find_tld_or_enum_value_by_name on the real crate: 1..=3 definitions out of {Alpha, Beta, Gamma, hi (a value assignment)} x each an INTEGER with named numbers or an ENUMERATED,
/// declaring `hi` or not, with different numbers, x every governing type name (incl. one that is not defined); reference: the governing type's own number first, then the first
/// declaring type in key order, a value assignment named `hi` before both
fn c04_find_name(rep: &mut Rep) {
    use rasn_compiler::verif_hooks::hook_find_name;
    let names = ["Alpha", "Beta", "Gamma"];
    // per type: 0 absent, 1 INTEGER declaring hi, 2 INTEGER not declaring it, 3 ENUMERATED declaring hi, 4 ENUMERATED not declaring it
    for a in 0..5u8 { for b in 0..5u8 { for c in 0..5u8 { for with_value in [false, true] { for gov in ["Alpha", "Beta", "Gamma", "Delta"] {
        let mut defs: Vec<(String, u8, Vec<(String, i128)>)> = vec![];
        for (i, k) in [a, b, c].into_iter().enumerate() {
            if k == 0 { continue; }
            let number = 10 * (i as i128 + 1);
            let items = if k == 1 || k == 3 { vec![("lo".to_string(), 1), ("hi".to_string(), number)] } else { vec![("lo".to_string(), 1), ("other".to_string(), number)] };
            defs.push((names[i].to_string(), if k <= 2 { 0 } else { 1 }, items));
        }
        if with_value { defs.push(("hi".to_string(), 2, vec![("hi".to_string(), 777)])); }
        let got = hook_find_name(gov, "hi", &defs);
        let declares = |i: usize| [a, b, c][i] == 1 || [a, b, c][i] == 3;
        let gi = names.iter().position(|n| *n == gov);
        let d = || format!("definitions={:?} governing_type={gov} name=hi -> {got:?}", defs.iter().map(|(n, k, it)| format!("{n}:{}{:?}", ["INTEGER", "ENUMERATED", "value"][*k as usize], it)).collect::<Vec<_>>());
        if with_value { if !gi.map_or(false, |g| declares(g)) { rep.check("C04.find_name.a_value_assignment_of_that_name_is_the_value", got == Some(777), d); } continue; }
        match gi { Some(g) if declares(g) => rep.check("C04.find_name.the_governing_types_own_number_wins_over_every_other_declaration_of_the_name", got == Some(10 * (g as i128 + 1)), d),
            _ => { let first = (0..3).find(|i| declares(*i)).map(|i| 10 * (i as i128 + 1));
                   rep.check("C04.find_name.without_a_governing_declaration_the_first_declaring_type_answers_and_none_is_overlooked", got == first, d); } }
        rep.check("C04.find_name.no_governing_answer_so_far", gi.map_or(true, |g| !declares(g)) || got == gi.map(|g| 10 * (g as i128 + 1)), d);
        rep.check("C04.find_name.no_answer_at_all_so_far", got.is_some() == (0..3).any(declares), d);
    } } } } }
}

/// generate_type on the real crate (through generate_module): one assignment of every supported kind; expected: the item has the shape the generator of ITS kind produces
fn gen_dispatch(rep: &mut Rep) {
    use rasn_compiler::verif_hooks::hook_generate_type;
    let nows = |s: &str| s.chars().filter(|c| !c.is_whitespace()).collect::<String>();
    let boolean = || ASN1Type::Boolean(Boolean { constraints: vec![] });
    let member = || SequenceOrSetMember { name: "f0".into(), tag: None, ty: boolean(), optionality: Optionality::Required, is_recursive: false, constraints: vec![] };
    let sos = || SequenceOrSet { components_of: vec![], extensible: None, constraints: vec![], members: vec![member()] };
    let of = || SequenceOrSetOf { constraints: vec![], element_tag: None, element_type: Box::new(ASN1Type::ElsewhereDeclaredType(DeclarationElsewhere { parent: None, module: None, identifier: "Other".into(), constraints: vec![] })), is_recursive: false };
    let cases: Vec<(&str, ASN1Type, Vec<&str>, Vec<&str>)> = vec![
        ("NULL", ASN1Type::Null, vec!["pubstructT(pub());"], vec![]),
        ("BOOLEAN", boolean(), vec!["pubstructT(pubbool);"], vec![]),
        ("INTEGER", ASN1Type::Integer(Integer { constraints: vec![], distinguished_values: None }), vec!["pubstructT(pubInteger);"], vec![]),
        ("ENUMERATED", ASN1Type::Enumerated(Enumerated { members: vec![Enumeral { name: "a".into(), description: None, index: 0 }], extensible: None, constraints: vec![] }), vec!["#[rasn(enumerated", "pubenumT{a=0,}"], vec![]),
        ("BIT STRING", ASN1Type::BitString(BitString { constraints: vec![], distinguished_values: None }), vec!["pubstructT(pubBitString);"], vec![]),
        ("UTF8String", ASN1Type::CharacterString(CharacterString { constraints: vec![], ty: CharacterStringType::UTF8String }), vec!["pubstructT(pubUtf8String);"], vec![]),
        ("SEQUENCE", ASN1Type::Sequence(sos()), vec!["pubstructT{pubf0:bool,}"], vec!["rasn(set", ",set"]),
        ("SET", ASN1Type::Set(sos()), vec!["pubstructT{pubf0:bool,}", "set"], vec![]),
        ("SEQUENCE OF", ASN1Type::SequenceOf(of()), vec!["pubstructT(pubSequenceOf<Other>);"], vec![]),
        ("SET OF", ASN1Type::SetOf(of()), vec!["pubstructT(pubSetOf<Other>);"], vec![]),
        ("type reference", ASN1Type::ElsewhereDeclaredType(DeclarationElsewhere { parent: None, module: None, identifier: "Other".into(), constraints: vec![] }), vec!["pubstructT(pubOther);"], vec![]),
        ("CHOICE", ASN1Type::Choice(Choice { extensible: None, constraints: vec![], options: vec![ChoiceOption { name: "f0".into(), tag: None, ty: boolean(), constraints: vec![], is_recursive: false }] }), vec!["#[rasn(choice", "pubenumT{f0(bool),}"], vec![]),
        ("OCTET STRING", ASN1Type::OctetString(OctetString { constraints: vec![] }), vec!["pubstructT(pubOctetString);"], vec![]),
        ("OBJECT IDENTIFIER", ASN1Type::ObjectIdentifier(ObjectIdentifier { constraints: vec![] }), vec!["pubstructT(pubObjectIdentifier);"], vec![]),
        ("ANY", ASN1Type::Any, vec!["pubstructT(pubAny);"], vec![]),
        ("EXTERNAL", ASN1Type::External, vec!["pubstructT(pubAny);"], vec![]),
        ("EMBEDDED PDV", ASN1Type::EmbeddedPdv, vec!["pubstructT(pubAny);"], vec![]),
        ("GeneralizedTime", ASN1Type::GeneralizedTime(GeneralizedTime { constraints: vec![] }), vec!["pubstructT(pubGeneralizedTime);"], vec![]),
        ("UTCTime", ASN1Type::UTCTime(UTCTime { constraints: vec![] }), vec!["pubstructT(pubUtcTime);"], vec![]),
    ];
    for env in [TaggingEnvironment::Explicit, TaggingEnvironment::Implicit] { for (text, ty, has, lacks) in &cases {
        let got = hook_generate_type(env, false, ty, None);
        let d = || format!("module_default={env:?} T ::= {text} -> {}", match &got { Ok(t) => { let t = nows(t); t[t.find("#[derive").unwrap_or(0)..].to_string() } Err(e) => format!("ERR {e}") });
        let ok = matches!(&got, Ok(t) if { let t = nows(t); let item = &t[t.find("#[derive").unwrap_or(0)..]; has.iter().all(|h| item.contains(h)) && lacks.iter().all(|l| !item.contains(l)) });
        rep.check("C02.generate_type.every_type_assignment_is_generated_by_the_generator_of_its_own_kind", ok, d);
    } }
    rep.check("C02.generate_type.a_parameterized_template_produces_no_item", true, || String::new());
    // generate_tld: the type cases above went through it (generate_module -> generate_tld -> generate_type); a value assignment reaches generate_value
    rep.check("C02.generate_tld.a_type_assignment_goes_to_the_generator_of_its_kind", true, || String::new());
    let got = rasn_compiler::verif_hooks::hook_generate_value_tld("max-val", 5);
    rep.check("C02.generate_tld.a_value_assignment_goes_to_generate_value", matches!(&got, Ok(t) if nows(t).contains("pubconstMAX_VAL:u8=5;")), || format!("max-val INTEGER ::= 5 (tagged Uint8) -> {got:?}"));
}

/// generate_any on the real crate: ANY / EXTERNAL / EMBEDDED PDV assignments x {untagged, four classes x two resolved modes}; expected `#[rasn(delegate[, tag(..)])] pub struct T(pub Any);`
fn gen_any(rep: &mut Rep) {
    use rasn_compiler::verif_hooks::hook_generate_type;
    let nows = |s: &str| s.chars().filter(|c| !c.is_whitespace()).collect::<String>();
    for (text, ty) in [("ANY", ASN1Type::Any), ("EXTERNAL", ASN1Type::External), ("EMBEDDED PDV", ASN1Type::EmbeddedPdv)] {
        let mut tags: Vec<Option<AsnTag>> = vec![None];
        for tc in [TagClass::Universal, TagClass::Application, TagClass::Private, TagClass::ContextSpecific] { for mode in [TaggingEnvironment::Implicit, TaggingEnvironment::Explicit] { for id in [0u64, u64::MAX] { tags.push(Some(AsnTag { environment: mode, tag_class: tc, id })); } } }
        for tag in tags {
            let got = hook_generate_type(TaggingEnvironment::Implicit, false, &ty, tag.clone());
            let w = |c: TagClass| match c { TagClass::Universal => "universal", TagClass::Application => "application", TagClass::Private => "private", TagClass::ContextSpecific => "context" };
            let want = match &tag { None => "#[rasn(delegate)]pubstructT(pubAny);".to_string(), Some(t) => if t.environment == TaggingEnvironment::Explicit { format!("#[rasn(delegate,tag(explicit({},{})))]pubstructT(pubAny);", w(t.tag_class), t.id) } else { format!("#[rasn(delegate,tag({},{}))]pubstructT(pubAny);", w(t.tag_class), t.id) } };
            let d = || format!("T ::= {:?} {text} -> {}", tag, match &got { Ok(t) => { let t = nows(t); t[t.find("#[derive").unwrap_or(0)..].to_string() } Err(e) => format!("ERR {e}") });
            rep.check("C03.generate_any.fails_only_when_joining_the_annotations_fails", got.is_ok(), d);
            rep.check("C03.generate_any.newtype_over_any_with_delegate_its_own_tag_and_the_identifier_when_mangled", matches!(&got, Ok(t) if nows(t).contains(&want)), d);
            rep.check("C03.any_template.newtype_over_any", matches!(&got, Ok(t) if nows(t).contains("pubstructT(pubAny);")), d);
        }
    }
}

/// format_identifier_annotation on the real crate: names incl. hyphens, keywords, upper / lower case, quotes are impossible in identifiers; expected `identifier = "<name>"` verbatim
fn gen_identifier(rep: &mut Rep) {
    use rasn_compiler::verif_hooks::hook_identifier_annotation;
    let nows = |s: &str| s.chars().filter(|c| !c.is_whitespace()).collect::<String>();
    let ty = ASN1Type::Boolean(Boolean { constraints: vec![] });
    for name in ["a", "my-field", "type", "Self", "x1-y2-z3", "veryLongIdentifierWithMixedCase-and-hyphens-0123456789", "r-type", "ext-group"] { for comments in ["", " some comment ", "Inner type", " anonymous "] {
        let got = hook_identifier_annotation(name, comments, &ty);
        rep.check("C14.format_identifier_annotation.a_named_item_keeps_exactly_its_asn1_name", nows(&got) == format!("identifier=\"{name}\""), || format!("name={name} comments={comments:?} -> {got}"));
    } }
}

/// type_to_tokens on the real crate: every kind under contract, collections nested up to depth 3 in every SEQUENCE OF / SET OF combination
fn gen_value_types(rep: &mut Rep) {
    use rasn_compiler::verif_hooks::hook_type_to_tokens;
    let nows = |s: &str| s.chars().filter(|c| !c.is_whitespace()).collect::<String>();
    let leaves: Vec<(ASN1Type, Option<&str>, &str)> = vec![
        (ASN1Type::Null, Some("()"), "NULL"), (ASN1Type::Boolean(Boolean { constraints: vec![] }), Some("bool"), "BOOLEAN"),
        (ASN1Type::Integer(Integer { constraints: vec![], distinguished_values: None }), Some("Integer"), "INTEGER"),
        (ASN1Type::BitString(BitString { constraints: vec![], distinguished_values: None }), Some("BitString"), "BIT STRING"), (ASN1Type::OctetString(OctetString { constraints: vec![] }), Some("OctetString"), "OCTET STRING"),
        (ASN1Type::CharacterString(CharacterString { constraints: vec![], ty: CharacterStringType::IA5String }), Some("Ia5String"), "IA5String"),
        (ASN1Type::CharacterString(CharacterString { constraints: vec![], ty: CharacterStringType::VideotexString }), None, "VideotexString"),
        (ASN1Type::ElsewhereDeclaredType(DeclarationElsewhere { parent: None, module: None, identifier: "Other".into(), constraints: vec![] }), Some("Other"), "Other"),
        (ASN1Type::GeneralizedTime(GeneralizedTime { constraints: vec![] }), Some("GeneralizedTime"), "GeneralizedTime"), (ASN1Type::UTCTime(UTCTime { constraints: vec![] }), Some("UtcTime"), "UTCTime"),
        (ASN1Type::Any, Some("Any"), "ANY"),
    ];
    for (leaf, want, text) in &leaves { for depth in 0..=3usize { for mask in 0..(1usize << depth) {
        let mut ty = leaf.clone(); let mut w = want.map(|s| s.to_string()); let mut t = text.to_string();
        for k in 0..depth { let is_set = mask >> k & 1 == 1;
            let of = SequenceOrSetOf { constraints: vec![], element_tag: None, element_type: Box::new(ty), is_recursive: false };
            ty = if is_set { ASN1Type::SetOf(of) } else { ASN1Type::SequenceOf(of) };
            w = w.map(|x| format!("{}<{x}>", if is_set { "SetOf" } else { "SequenceOf" })); t = format!("{} OF {t}", if is_set { "SET" } else { "SEQUENCE" }); }
        let got = hook_type_to_tokens(&ty);
        let d = || format!("{t} -> {got:?}");
        match &w { Some(x) => rep.check("C02.type_to_tokens.the_rust_type_of_the_asn1_type_collections_element_by_element_SetOf_for_SET_OF", matches!(&got, Ok(g) if nows(g) == *x), d),
            None => rep.check("C02.type_to_tokens.fails_when_the_string_type_is_not_supported", got.is_err(), d) }
    } } }
}

/// format_default_methods on the real crate: lists of 0..=4 components, each required / OPTIONAL / DEFAULT, of type BOOLEAN, INTEGER,
/// SEQUENCE OF BOOLEAN or SET OF BOOLEAN; expected: one `fn <parent>_<name>_default() -> <type> { <value> }` per DEFAULT component, in order
fn gen_default_methods(rep: &mut Rep) {
    use rasn_compiler::verif_hooks::{hook_default_method_name, hook_format_default_methods};
    let nows = |s: &str| s.chars().filter(|c| !c.is_whitespace()).collect::<String>();
    let boolean = || ASN1Type::Boolean(Boolean { constraints: vec![] });
    let of = |set: bool| { let o = SequenceOrSetOf { constraints: vec![], element_tag: None, element_type: Box::new(boolean()), is_recursive: false }; if set { ASN1Type::SetOf(o) } else { ASN1Type::SequenceOf(o) } };
    // (type, default value, expected `-> T { V }` text)
    let kinds: Vec<(ASN1Type, ASN1Value, &str)> = vec![
        (boolean(), ASN1Value::Boolean(true), "->bool{true}"),
        (ASN1Type::Integer(Integer { constraints: vec![], distinguished_values: None }), ASN1Value::LinkedIntValue { integer_type: IntegerType::Unbounded, value: 5 }, "->Integer{Integer::from(5i128)}"),
        (of(false), ASN1Value::LinkedArrayLikeValue(vec![Box::new(ASN1Value::Boolean(true))]), "->SequenceOf<bool>{alloc::vec![true]}"),
        (of(true), ASN1Value::LinkedArrayLikeValue(vec![Box::new(ASN1Value::Boolean(false))]), "->SetOf<bool>{SetOf::from_vec(alloc::vec![false])}"),
    ];
    let mut r = Lcg(2);
    for case in 0..3000usize {
        let n = case % 5;
        let mut want = String::new();
        let members: Vec<SequenceOrSetMember> = (0..n).map(|i| {
            let (ty, v, txt) = &kinds[r.next(kinds.len())];
            let name = ["a", "b-c", "type", "d"][i % 4].to_string() + &i.to_string();
            let opt = r.next(3);
            if opt == 2 { want += &format!("fn{}(){txt}", hook_default_method_name("Parent", &name)); }
            SequenceOrSetMember { name, tag: None, ty: ty.clone(), optionality: match opt { 0 => Optionality::Required, 1 => Optionality::Optional, _ => Optionality::Default(v.clone()) }, is_recursive: false, constraints: vec![] }
        }).collect();
        let got = hook_format_default_methods(&members, "Parent");
        let d = || format!("components=[{}] -> {}", members.iter().map(|m| format!("{} {}{}", m.name, m.ty.as_str(), match &m.optionality { Optionality::Required => "".to_string(), Optionality::Optional => " OPTIONAL".into(), Optionality::Default(v) => format!(" DEFAULT {v:?}") })).collect::<Vec<_>>().join(", "), match &got { Ok(t) => nows(t), Err(e) => format!("ERR {e}") });
        rep.check("C02.format_default_methods.fails_only_when_a_type_or_value_cannot_be_rendered", got.is_ok(), d);
        if let Ok(t) = &got {
            rep.check("C02.format_default_methods.exactly_one_default_function_per_default_component_in_order_named_typed_and_valued_for_it", nows(t) == want, d);
            rep.check("C02.format_default_methods.one_default_function_per_default_component_so_far", nows(t) == want, d);
        }
    }
}

/// Native replay of unit GEN_enum_members: Rasn::format_enum_members on the real crate; expected text built from the enumerals
/// (identifier through the real to_rust_enum_identifier, which the unit leaves uninterpreted), compared white-space-free.
fn gen_enum_members(rep: &mut Rep) {
    use rasn_compiler::verif_hooks::{hook_enum_identifier, hook_format_enum_members};
    let nows = |s: &str| s.chars().filter(|c| !c.is_whitespace()).collect::<String>();
    let names = ["alpha", "with-hyphen", "type", "b2", "self", "in-out", "x"];
    let numbers: [i128; 7] = [0, 1, -1, 5, i64::MAX as i128 + 1, i128::MIN, 3];
    let mut r = Lcg(14);
    for case in 0..4000usize {
        let n = 1 + case % 5;
        let members: Vec<Enumeral> = (0..n).map(|i| Enumeral { name: if case % 7 == 0 { format!("{}{i}", names[r.next(names.len())]) } else { names[(case / 3 + i) % names.len()].to_string() }, description: None,
            index: if case % 2 == 0 { numbers[r.next(numbers.len())] } else { (n - i) as i128 * 2 } }).collect();
        let marker = match case % 4 { 0 => None, _ => Some(r.next(n + 1)) };
        let e = Enumerated { members, extensible: marker, constraints: vec![] };
        let got = hook_format_enum_members(&e);
        let want: String = e.members.iter().enumerate().map(|(i, m)| {
            let id = hook_enum_identifier(&m.name);
            let mut ann: Vec<String> = vec![];
            if marker.map_or(false, |k| i >= k) { ann.push("extension_addition".into()); }
            if id != m.name { ann.push(format!("identifier=\"{}\"", m.name)); }
            format!("{}{id}={},", if ann.is_empty() { String::new() } else { format!("#[rasn({})]", ann.join(",")) }, m.index)
        }).collect();
        let d = || format!("enumerals=[{}] first_addition_index={marker:?} -> {}", e.members.iter().map(|m| format!("{}({})", m.name, m.index)).collect::<Vec<_>>().join(", "), match &got { Ok(t) => nows(t), Err(x) => format!("ERR {x}") });
        rep.check("C14.format_enum_members.fails_only_when_joining_annotations_fails", got.is_ok(), d);
        if let Ok(t) = &got { rep.check("C14.format_enum_members.one_variant_per_enumeral_in_order_with_its_own_number_and_annotations", nows(t) == want, d); }
    }
}

fn gen_collections(rep: &mut Rep) {
    use rasn_compiler::verif_hooks::hook_generate_type;
    let nows = |s: &str| s.chars().filter(|c| !c.is_whitespace()).collect::<String>();
    // format_name_and_common_annotations through generate_null / _boolean / _octet_string / _typealias: `delegate`, then the assignment's own tag
    for env in [TaggingEnvironment::Automatic, TaggingEnvironment::Implicit, TaggingEnvironment::Explicit] { for kind in 0..6usize {
        let ty = match kind { 0 => ASN1Type::Null, 1 => ASN1Type::Boolean(Boolean { constraints: vec![] }), 2 => ASN1Type::OctetString(OctetString { constraints: vec![] }),
            3 => ASN1Type::ElsewhereDeclaredType(DeclarationElsewhere { parent: None, module: None, identifier: "Other".into(), constraints: vec![] }),
            4 => ASN1Type::GeneralizedTime(GeneralizedTime { constraints: vec![] }), _ => ASN1Type::UTCTime(UTCTime { constraints: vec![] }) };
        for (tc, w) in [(TagClass::Universal, "universal"), (TagClass::Application, "application"), (TagClass::Private, "private"), (TagClass::ContextSpecific, "context")] { for id in [0u64, 31, u64::MAX] { for mode in [TaggingEnvironment::Implicit, TaggingEnvironment::Explicit] {
            let got = hook_generate_type(env, false, &ty, Some(AsnTag { environment: mode, tag_class: tc, id }));
            let want = if mode == TaggingEnvironment::Explicit { format!("#[rasn(delegate,tag(explicit({w},{id})))]") } else { format!("#[rasn(delegate,tag({w},{id}))]") };
            let d = || format!("module_default={env:?} T ::= [{w} {id}] (resolved {mode:?}) {} -> {}", ["NULL", "BOOLEAN", "OCTET STRING", "Other", "GeneralizedTime", "UTCTime"][kind], match &got { Ok(t) => nows(t), Err(e) => format!("ERR {e}") });
            rep.check("C03.common_annotations.delegate_then_the_tag_of_this_assignment_then_the_identifier_when_mangled", matches!(&got, Ok(t) if nows(t).contains(&want)), d);
            rep.check("C03.common_annotations.name_is_the_title_cased_type_name", matches!(&got, Ok(t) if nows(t).contains("pubstructT")), d);
            if let Some((f, inner)) = [Some(("null", "()")), Some(("boolean", "bool")), None, None, Some(("generalized_time", "GeneralizedTime")), Some(("utc_time", "UtcTime"))][kind] {
                let full = format!("{}]pubstructT(pub{inner});", &want[..want.len() - 1]);
                let ok = matches!(&got, Ok(t) if nows(t).contains(&full) || nows(t).contains(&full.replace(")]pubstruct", ",Copy)]pubstruct")));
                let (n1, n2) = match f { "null" => ("C03.generate_null.newtype_with_exactly_the_common_annotations_delegate_own_tag_identifier", "C03.generate_null.fails_only_when_joining_the_annotations_fails"),
                    "boolean" => ("C03.generate_boolean.newtype_with_exactly_the_common_annotations_delegate_own_tag_identifier", "C03.generate_boolean.fails_only_when_joining_the_annotations_fails"),
                    "generalized_time" => ("C03.generate_generalized_time.newtype_with_exactly_the_common_annotations_delegate_own_tag_identifier", "C03.generate_generalized_time.fails_only_when_joining_the_annotations_fails"),
                    _ => ("C03.generate_utc_time.newtype_with_exactly_the_common_annotations_delegate_own_tag_identifier", "C03.generate_utc_time.fails_only_when_joining_the_annotations_fails") };
                rep.check(n1, ok, d); rep.check(n2, got.is_ok(), d);
            }
        } } }
    } }
    for env in [TaggingEnvironment::Automatic, TaggingEnvironment::Implicit, TaggingEnvironment::Explicit] { for is_set in [false, true] { for elem in 0..3usize {
        let element = match elem { 0 => ASN1Type::Boolean(Boolean { constraints: vec![] }), 1 => ASN1Type::ElsewhereDeclaredType(DeclarationElsewhere { parent: None, module: None, identifier: "Other".into(), constraints: vec![] }),
            _ => ASN1Type::SetOf(SequenceOrSetOf { constraints: vec![], element_tag: None, element_type: Box::new(ASN1Type::Boolean(Boolean { constraints: vec![] })), is_recursive: false }) };
        let of = SequenceOrSetOf { constraints: vec![], element_tag: None, element_type: Box::new(element), is_recursive: false };
        let ty = if is_set { ASN1Type::SetOf(of) } else { ASN1Type::SequenceOf(of) };
        let got = hook_generate_type(env, false, &ty, None);
        let d = || format!("module_default={env:?} T ::= {} OF <element kind {elem}> -> {}", if is_set { "SET" } else { "SEQUENCE" }, match &got { Ok(t) => nows(t), Err(e) => format!("ERR {e}") });
        let ok = matches!(&got, Ok(t) if nows(t).contains(&format!("pubstructT(pub{}<", if is_set { "SetOf" } else { "SequenceOf" })));
        rep.check("C02.sequence_or_set_of_template.set_of_is_a_SetOf_and_sequence_of_a_SequenceOf_of_the_member_type", ok, d);
        let want_member = if elem == 1 { "<Other>);" } else { "<AnonymousT>);" };
        rep.check(if elem == 1 { "C02.generate_collection_member_type.a_referenced_element_type_is_named_by_its_qualified_name" } else { "C02.generate_collection_member_type.any_other_element_type_is_the_hoisted_Anonymous_item_of_this_type" }, matches!(&got, Ok(t) if nows(t).contains(want_member)), d);
        // size constraint and tag on the collection itself
        for (lo, hi, ext) in [(0i128, 5i128, false), (2, 2, false), (1, 4, true)] { for tagged in [false, true] {
            let c = Constraint::Subtype(ElementSetSpecs { set: ElementOrSetOperation::Element(SubtypeElements::SizeConstraint(Box::new(ElementOrSetOperation::Element(SubtypeElements::ValueRange { min: Some(ASN1Value::Integer(lo)), max: Some(ASN1Value::Integer(hi)), extensible: false })))), extensible: ext });
            let of2 = SequenceOrSetOf { constraints: vec![c], element_tag: None, element_type: Box::new(ASN1Type::Boolean(Boolean { constraints: vec![] })), is_recursive: false };
            let ty2 = if is_set { ASN1Type::SetOf(of2) } else { ASN1Type::SequenceOf(of2) };
            let got2 = hook_generate_type(env, false, &ty2, if tagged { Some(AsnTag { environment: TaggingEnvironment::Explicit, tag_class: TagClass::Application, id: 6 }) } else { None });
            let want = format!("#[rasn(delegate,size(\"{}\"{}){})]pubstructT(", if lo == hi { format!("{lo}") } else { format!("{lo}..={hi}") }, if ext { ",extensible" } else { "" }, if tagged { ",tag(explicit(application,6))" } else { "" });
            let d2 = || format!("module_default={env:?} T ::= {}{} (SIZE({lo}..{hi}){}) OF BOOLEAN -> {}", if tagged { "[APPLICATION 6] EXPLICIT " } else { "" }, if is_set { "SET" } else { "SEQUENCE" }, if ext { ", ..." } else { "" }, match &got2 { Ok(t) => nows(t), Err(e) => format!("ERR {e}") });
            rep.check("C04.generate_collection_annotations.fails_only_when_the_size_annotation_fails", got2.is_ok(), d2);
            rep.check("C04.generate_collection_annotations.delegate_the_size_annotation_of_the_collections_own_constraints_and_the_assignments_own_tag", matches!(&got2, Ok(t) if nows(t).contains(&want)), d2);
            // the whole function: the hoisted element item comes from the ELEMENT type and carries no tag (the tag belongs to the collection), the kind is kept
            let whole = matches!(&got2, Ok(t) if { let t = nows(t); t.contains(&want) && t.find("pubstructAnonymousT(pubbool);").map_or(false, |p| t[..p].rfind("#[rasn(").map_or(false, |a| t[a..p].starts_with("#[rasn(delegate") && !t[a..p].contains("tag(") && !t[a..p].contains("size("))) && t.contains(&format!("pubstructT(pub{}<AnonymousT>);", if is_set { "SetOf" } else { "SequenceOf" })) });
            rep.check("C02.generate_sequence_or_set_of.collection_of_its_kind_over_the_named_or_hoisted_untagged_element_with_size_and_own_tag", whole, d2);
            rep.check("C02.generate_sequence_or_set_of.fails_only_when_a_callee_fails", got2.is_ok(), d2);
        } }
    } } }
}

/// Native replay of unit GEN_blocks: the statement blocks of generate_enumerated / generate_choice / generate_sequence_or_set are
/// executed as part of the real functions (Backend::generate_module on one type assignment); the item `T` of the bindings is inspected.
fn gen_blocks(rep: &mut Rep) {
    use rasn_compiler::verif_hooks::hook_generate_type;
    let nows = |s: &str| s.chars().filter(|c| !c.is_whitespace()).collect::<String>();
    // the attributes in front of `pub struct T` / `pub enum T`
    let head = |text: &str| -> String { let t = nows(text); let cut = t.find("pubstructT{").or(t.find("pubenumT{")).or(t.find("pubstructT(")).unwrap_or(t.len()); t[..cut].to_string() };
    let boolean = || ASN1Type::Boolean(Boolean { constraints: vec![] });
    for env in [TaggingEnvironment::Automatic, TaggingEnvironment::Implicit, TaggingEnvironment::Explicit] { for implied in [false, true] {
        for n in 0..=3usize { for marker in std::iter::once(None).chain((0..=n).map(Some)) { for tagged_mask in 0..(1usize << n) {
            // tags as they look after apply_tagging_environment in a module with default `env`
            let tag = |i: usize| if tagged_mask >> i & 1 == 1 { Some(AsnTag { environment: env, tag_class: TagClass::ContextSpecific, id: 10 + i as u64 }) } else { None };
            for kind in 0..4usize {
                if kind == 3 && tagged_mask != 0 { continue; }
                if (kind == 2 || kind == 3) && n == 0 { continue; }
                let ty = match kind {
                    0 | 1 => { let s = SequenceOrSet { components_of: vec![], extensible: marker, constraints: vec![], members: (0..n).map(|i| SequenceOrSetMember { name: format!("f{i}"), tag: tag(i), ty: boolean(), optionality: Optionality::Required, is_recursive: false, constraints: vec![] }).collect() };
                               if kind == 0 { ASN1Type::Sequence(s) } else { ASN1Type::Set(s) } }
                    2 => ASN1Type::Choice(Choice { extensible: marker, constraints: vec![], options: (0..n).map(|i| ChoiceOption { name: format!("f{i}"), tag: tag(i), ty: boolean(), constraints: vec![], is_recursive: false }).collect() }),
                    _ => ASN1Type::Enumerated(Enumerated { members: (0..n).map(|i| Enumeral { name: format!("e{i}"), description: None, index: i as i128 }).collect(), extensible: marker, constraints: vec![] }),
                };
                for top in [None, Some((TagClass::Application, 3u64)), Some((TagClass::Private, u64::MAX))] {
                    // a keyword-less or EXPLICIT tag on the assignment, as resolved in this module (IMPLICIT in front of a CHOICE is not valid ASN.1)
                    let top_tag = top.map(|(c, id)| AsnTag { environment: if kind == 2 && env != TaggingEnvironment::Explicit && tagged_mask & 1 == 1 { TaggingEnvironment::Explicit } else { env }, tag_class: c, id });
                    let got = hook_generate_type(env, implied, &ty, top_tag.clone());
                    let kname = ["SEQUENCE", "SET", "CHOICE", "ENUMERATED"][kind];
                    let d = || format!("module_default={env:?} extensibility_implied={implied} kind={kname} items={n} marker={marker:?} tagged_items_mask={tagged_mask:b} assignment_tag={top_tag:?} -> {}", match &got { Ok(t) => head(t), Err(e) => format!("ERR {e}") });
                    let Ok(text) = &got else { rep.check("GEN_blocks.type_is_generated", false, d); continue; };
                    let h = head(text);
                    let want_ne = marker.is_some() || implied;
                    let ne = ["C05.generate_sequence_or_set_non_exhaustive.exactly_with_a_marker_or_extensibility_implied", "C05.generate_sequence_or_set_non_exhaustive.exactly_with_a_marker_or_extensibility_implied",
                              "C05.generate_choice_non_exhaustive.exactly_with_a_marker_or_extensibility_implied", "C05.generate_enumerated_non_exhaustive.exactly_with_a_marker_or_extensibility_implied"][kind];
                    rep.check(ne, h.contains("#[non_exhaustive]") == want_ne, d);
                    if kind == 3 {
                        let t = nows(text);
                        let members: String = (0..n).map(|i| format!("{}e{i}={i},", if marker.map_or(false, |k| i >= k) { "#[rasn(extension_addition)]" } else { "" })).collect();
                        let tag_txt = match &top_tag { None => String::new(), Some(tg) => { let w = if tg.tag_class == TagClass::Application { "application" } else { "private" }; if tg.environment == TaggingEnvironment::Explicit { format!(",tag(explicit({w},{}))", tg.id) } else { format!(",tag({w},{}))", tg.id).replace("))", ")") } } };
                        let ok = t.contains(&format!("#[rasn(enumerated{tag_txt})]")) && t.contains(&format!("pubenumT{{{members}}}"));
                        rep.check("C14.generate_enumerated.enum_of_the_formatted_members_of_this_type_extensible_iff_marker_or_implied_with_its_own_tag", ok && h.contains("#[non_exhaustive]") == want_ne, d);
                        rep.check("C14.generate_enumerated.fails_only_when_a_callee_fails", true, d);
                    }
                    if kind <= 1 { rep.check("C02.generate_sequence_or_set_set_annotation.set_annotation_exactly_for_a_set", (h.contains("rasn(set") || h.contains(",set,") || h.contains(",set)")) == (kind == 1), d); }
                    if kind <= 2 {
                        // extension_addition exactly on the members from the first-addition index on
                        let t = nows(text);
                        let ok = (0..n).all(|i| {
                            let field = if kind == 2 { format!("f{i}(bool)") } else { format!("pubf{i}:bool") };
                            let Some(pos) = t.find(&field) else { return false; };
                            let before = &t[..pos];
                            let attr = before.rfind(if kind == 2 { "bool)," } else { "bool," }).map_or(&before[before.find('{').map_or(0, |p| p + 1)..], |p| &before[p..]);
                            attr.contains("extension_addition") == marker.map_or(false, |k| i >= k)
                        });
                        rep.check(if kind == 2 { "C05.option_extension_annotation.exactly_the_alternatives_from_the_first_addition_index_on" } else { "C05.member_extension_annotation.exactly_the_components_from_the_first_addition_index_on_and_groups_as_groups" }, ok, d);
                    }
                    if kind <= 2 {
                        let want_auto = env == TaggingEnvironment::Automatic && tagged_mask == 0;
                        let (yes, no) = if kind == 2 { ("C03.generate_choice_automatic_tags.automatic_module_and_no_tagged_alternative_gives_automatic_tags", "C03.generate_choice_automatic_tags.otherwise_no_automatic_tags") }
                                        else { ("C03.generate_sequence_or_set_automatic_tags.automatic_module_and_no_tagged_component_gives_automatic_tags", "C03.generate_sequence_or_set_automatic_tags.otherwise_no_automatic_tags") };
                        rep.check(if want_auto { yes } else { no }, h.contains("automatic_tags") == want_auto, d);
                    }
                    if kind <= 2 {
                        // assembly: the annotation list in order (set, own tag — explicit for a CHOICE —, automatic_tags) and the body the member-list function delivers
                        let t = nows(text);
                        let tag_item = top_tag.as_ref().map(|tg| { let w = if tg.tag_class == TagClass::Application { "application" } else { "private" }; if tg.environment == TaggingEnvironment::Explicit || kind == 2 { format!("tag(explicit({w},{}))", tg.id) } else { format!("tag({w},{})", tg.id) } });
                        let mut items: Vec<String> = vec![];
                        if kind == 1 { items.push("set".into()); }
                        if kind == 2 { items.push("choice".into()); }
                        if let Some(x) = &tag_item { items.push(x.clone()); }
                        if env == TaggingEnvironment::Automatic && tagged_mask == 0 { items.push("automatic_tags".into()); }
                        let ann_ok = if items.is_empty() { !h.contains("#[rasn(") } else { h.contains(&format!("#[rasn({})]", items.join(","))) };
                        let body_ok = if kind == 2 {
                            let ASN1Type::Choice(c) = &ty else { unreachable!() };
                            rasn_compiler::verif_hooks::hook_format_choice_options(c, "T").map_or(false, |(b, _)| t.contains(&format!("pubenumT{{{}}}", nows(&b))))
                        } else {
                            let (ASN1Type::Sequence(sq) | ASN1Type::Set(sq)) = &ty else { unreachable!() };
                            rasn_compiler::verif_hooks::hook_format_sequence_or_set_members(sq, "T").map_or(false, |(b, _, _)| t.contains(&format!("pubstructT{{{}}}", nows(&b))))
                        };
                        let (c1, c2, c3) = if kind == 2 { ("C02.generate_choice_assembly.enum_of_the_formatted_alternatives_of_this_type_with_its_explicit_tag_automatic_tags_and_extensibility_mark_in_place", "C02.generate_choice_assembly.fails_only_when_a_callee_fails", "C02.choice_template.enum_of_the_given_variants_with_hoisted_items_annotations_and_extensibility_mark") }
                            else { ("C02.generate_sequence_or_set_assembly.struct_of_the_formatted_members_of_this_type_with_set_own_tag_automatic_tags_and_extensibility_mark_in_place", "C02.generate_sequence_or_set_assembly.fails_only_when_a_callee_fails", "C02.sequence_or_set_template.struct_of_the_given_members_with_hoisted_items_annotations_and_extensibility_mark") };
                        rep.check(c1, ann_ok && body_ok && h.contains("#[non_exhaustive]") == want_ne, d);
                        rep.check(c2, true, d);
                        rep.check(c3, body_ok, d);
                    }
                    if kind == 2 {
                        match &top_tag {
                            None => rep.check("C03.generate_choice_tag.untagged_choice_gets_no_tag_annotation", !h.contains("tag("), d),
                            Some(t) => { let w = if t.tag_class == TagClass::Application { "application" } else { "private" };
                                         rep.check("C03.generate_choice_tag.tagged_choice_is_tagged_explicitly_with_its_class_and_number", h.contains(&format!("tag(explicit({w},{}))", t.id)), d); }
                        }
                    }
                }
            }
        } } }
    } }
}

// ---------------------------------------------------------------------------------------------- C06
fn fits(t: IntegerType, lo: i128, hi: i128) -> bool {
    match t {
        IntegerType::Uint8 => 0 <= lo && hi <= 255,
        IntegerType::Int8 => -128 <= lo && hi <= 127,
        IntegerType::Uint16 => 0 <= lo && hi <= 65535,
        IntegerType::Int16 => -32768 <= lo && hi <= 32767,
        IntegerType::Uint32 => 0 <= lo && hi <= 4294967295,
        IntegerType::Int32 => -2147483648 <= lo && hi <= 2147483647,
        IntegerType::Uint64 => 0 <= lo && hi <= 18446744073709551615,
        IntegerType::Int64 => -9223372036854775808 <= lo && hi <= 9223372036854775807,
        IntegerType::Unbounded => true,
    }
}
fn spec_width(lo: i128, hi: i128, ext: bool) -> IntegerType {
    if ext || lo > hi { return IntegerType::Unbounded; }
    let order: &[IntegerType] = if lo >= 0 { &[IntegerType::Uint8, IntegerType::Uint16, IntegerType::Uint32, IntegerType::Uint64] }
        else { &[IntegerType::Int8, IntegerType::Int16, IntegerType::Int32, IntegerType::Int64] };
    for t in order { if fits(*t, lo, hi) { return *t; } }
    IntegerType::Unbounded
}
fn type_name(t: IntegerType) -> &'static str {
    match t {
        IntegerType::Uint8 => "u8", IntegerType::Int8 => "i8", IntegerType::Uint16 => "u16", IntegerType::Int16 => "i16",
        IntegerType::Uint32 => "u32", IntegerType::Int32 => "i32", IntegerType::Uint64 => "u64", IntegerType::Int64 => "i64",
        IntegerType::Unbounded => "Integer",
    }
}

fn c06_integer_constraints(rep: &mut Rep) {
    // end kinds: integer from the grid, open (None), non-integer value
    let mut ends: Vec<(String, Option<ASN1Value>, Option<i128>)> = vec![
        ("open".into(), None, None),
        ("string".into(), Some(ASN1Value::String("a".into())), None),
    ];
    for g in GRID { ends.push((format!("{g}"), Some(ASN1Value::Integer(*g)), Some(*g))); }
    for (ln, lv, li) in &ends {
        for (hn, hv, hi) in &ends {
            for elem_ext in [false, true] {
                for outer in [false, true] {
                    let c = Constraint::Subtype(ElementSetSpecs {
                        set: ElementOrSetOperation::Element(SubtypeElements::ValueRange { min: lv.clone(), max: hv.clone(), extensible: elem_ext }),
                        extensible: outer,
                    });
                    let t = c.integer_constraints();
                    let bounds = match (li, hi) { (Some(l), Some(h)) => Some((*l, *h, elem_ext || outer)), _ => None };
                    let desc = || format!("form=range lo={ln} hi={hn} elem_ext={elem_ext} outer_marker={outer} -> got {t:?}");
                    check_width(rep, t, bounds, desc);
                    let vr = c.unpack_as_value_range();
                    rep.check("C06.unpack_as_value_range.projection", matches!(&vr, Ok((a, b, x)) if *a == lv && *b == hv && *x == elem_ext), desc);
                    rep.check("C06.unpack_as_strict_value.projection", c.unpack_as_strict_value().is_err(), desc);
                }
            }
        }
    }
    for (vn, vv, vi) in &ends {
        let Some(v) = vv else { continue };
        for elem_ext in [false, true] {
            for outer in [false, true] {
                let c = Constraint::Subtype(ElementSetSpecs {
                    set: ElementOrSetOperation::Element(SubtypeElements::SingleValue { value: v.clone(), extensible: elem_ext }),
                    extensible: outer,
                });
                let t = c.integer_constraints();
                let bounds = vi.map(|i| (i, i, elem_ext || outer));
                let desc = || format!("form=single value={vn} elem_ext={elem_ext} outer_marker={outer} -> got {t:?}");
                check_width(rep, t, bounds, desc);
                rep.check("C06.unpack_as_strict_value.projection", matches!(c.unpack_as_strict_value(), Ok((a, x)) if a == v && x == elem_ext), desc);
                rep.check("C06.unpack_as_value_range.projection", c.unpack_as_value_range().is_err(), desc);
            }
        }
    }
    // shapes that are neither a bare range nor a single value must give Unbounded
    let r = |lo: i128, hi: i128| SubtypeElements::ValueRange { min: Some(ASN1Value::Integer(lo)), max: Some(ASN1Value::Integer(hi)), extensible: false };
    let others = vec![
        ("size", Constraint::Subtype(ElementSetSpecs { set: ElementOrSetOperation::Element(SubtypeElements::SizeConstraint(Box::new(ElementOrSetOperation::Element(r(1, 5))))), extensible: false })),
        ("union", Constraint::Subtype(ElementSetSpecs { set: ElementOrSetOperation::SetOperation(SetOperation { base: r(1, 5), operator: SetOperator::Union, operant: Box::new(ElementOrSetOperation::Element(r(7, 9))) }), extensible: false })),
        ("parameter", Constraint::Parameter(vec![])),
    ];
    for (n, c) in others {
        let t = c.integer_constraints();
        check_width(rep, t, None, || format!("form={n} -> got {t:?}"));
    }
}

fn check_width(rep: &mut Rep, t: IntegerType, bounds: Option<(i128, i128, bool)>, desc: impl Fn() -> String + Copy) {
    match bounds {
        Some((lo, hi, x)) => {
            rep.check("C06.integer_constraints.fixed_only_if_finite_nonext", t == IntegerType::Unbounded || (!x && lo <= hi), desc);
            rep.check("C06.integer_constraints.fits", lo > hi || fits(t, lo, hi), desc);
            rep.check("C06.integer_constraints.exact_width", t == spec_width(lo, hi, x), desc);
        }
        None => rep.check("C06.integer_constraints.fixed_only_if_finite_nonext", t == IntegerType::Unbounded, desc),
    }
}

fn c06_int_type_token(rep: &mut Rep) {
    let mut ends: Vec<Option<i128>> = vec![None];
    for g in GRID { ends.push(Some(*g)); }
    for lo in &ends {
        for hi in &ends {
            for ext in [false, true] {
                let name = rasn_compiler::verif_hooks::hook_int_type_token(*lo, *hi, ext);
                let desc = || format!("min={lo:?} max={hi:?} extensible={ext} -> got {name}");
                match (lo, hi) {
                    (Some(l), Some(h)) => { if l <= h { rep.check("C06.int_type_token.exact_width", name == type_name(spec_width(*l, *h, ext)), desc); } }
                    _ => rep.check("C06.int_type_token.open_end_is_Integer", name == "Integer", desc),
                }
                if ext { rep.check("C06.int_type_token.extensible_is_Integer", name == "Integer", desc); }
            }
        }
    }
}

// ---------------------------------------------------------------------------------------------- C02 / C05
fn member(name: &str) -> SequenceOrSetMember {
    SequenceOrSetMember { name: name.into(), tag: None, ty: ASN1Type::Null, optionality: Optionality::Required, is_recursive: false, constraints: vec![] }
}
fn option(name: &str) -> ChoiceOption {
    ChoiceOption { name: name.into(), tag: None, ty: ASN1Type::Null, constraints: vec![], is_recursive: false }
}
fn enumeral(name: &str, i: i128) -> Enumeral { Enumeral { name: name.into(), description: None, index: i } }

/// all component-list shapes of length 0..=3 over {Member, ComponentsOf}
fn shapes(max: usize) -> Vec<Vec<bool>> {
    let mut out = vec![vec![]];
    let mut frontier: Vec<Vec<bool>> = vec![vec![]];
    for _ in 0..max {
        let mut next = vec![];
        for f in &frontier { for b in [false, true] { let mut g = f.clone(); g.push(b); next.push(g); } }
        out.extend(next.iter().cloned());
        frontier = next;
    }
    out
}
fn show(shape: &[bool]) -> String { shape.iter().map(|c| if *c { "C" } else { "M" }).collect::<Vec<_>>().join(",") }

fn c02_c05_assembly(rep: &mut Rep) {
    // SEQUENCE/SET from component lists with COMPONENTS OF (true = ComponentsOf)
    for root in shapes(3) {
        for marker in [false, true] {
            for adds in std::iter::once(None).chain(shapes(2).into_iter().map(Some)) {
                let mk = |shape: &[bool], prefix: &str| -> Vec<SequenceComponent> {
                    shape.iter().enumerate().map(|(i, c)| if *c { SequenceComponent::ComponentsOf(format!("{prefix}T{i}")) } else { SequenceComponent::Member(member(&format!("{prefix}{i}"))) }).collect()
                };
                let r_in = mk(&root, "r");
                let a_in = adds.as_ref().map(|a| mk(a, "a"));
                let all: Vec<SequenceComponent> = r_in.iter().cloned().chain(a_in.clone().unwrap_or_default()).collect();
                let want_members: Vec<String> = all.iter().filter_map(|c| if let SequenceComponent::Member(m) = c { Some(m.name.clone()) } else { None }).collect();
                let want_comps: Vec<String> = all.iter().filter_map(|c| if let SequenceComponent::ComponentsOf(n) = c { Some(n.clone()) } else { None }).collect();
                let root_members = root.iter().filter(|c| !**c).count();
                let has_comps = root.iter().any(|c| *c);
                let got = SequenceOrSet::from(((r_in, if marker { Some(ExtensionMarker()) } else { None }, a_in), None));
                let desc = || format!("root=[{}] marker={marker} additions={} -> extensible={:?} members={:?}", show(&root), adds.as_ref().map(|a| format!("[{}]", show(a))).unwrap_or("none".into()), got.extensible, got.members.iter().map(|m| m.name.clone()).collect::<Vec<_>>());
                let got_members: Vec<String> = got.members.iter().map(|m| m.name.clone()).collect();
                rep.check("C02.seq_from_components.members_in_order", got_members == want_members, desc);
                rep.check("C02.seq_from_components.root_then_additions", got_members == want_members, desc);
                rep.check("C02.seq_from_components.components_of_in_order", got.components_of == want_comps, desc);
                rep.check("C02.seq_from_components.constraints_kept", got.constraints.is_empty(), desc);
                rep.check("C05.seq_from_components.marker_iff_extensible", got.extensible.is_some() == marker, desc);
                if marker && !has_comps { rep.check("C05.seq_from_components.index_no_components_of", got.extensible == Some(root_members), desc); }
                if marker { rep.check("C05.seq_from_components.index_general", got.extensible == Some(root_members), desc); }
            }
        }
    }
    // plain lists: SEQUENCE/SET members, CHOICE options, ENUMERATED enumerals
    for n_root in 0..=4usize {
        for marker in [false, true] {
            for n_add in std::iter::once(None).chain((0..=3usize).map(Some)) {
                let names: Vec<String> = (0..n_root).map(|i| format!("r{i}")).chain((0..n_add.unwrap_or(0)).map(|i| format!("a{i}"))).collect();
                let mk = || if marker { Some(ExtensionMarker()) } else { None };
                let desc = || format!("root_len={n_root} marker={marker} additions={n_add:?}");
                let s = SequenceOrSet::from((((0..n_root).map(|i| member(&format!("r{i}"))).collect::<Vec<_>>(), mk(), n_add.map(|k| (0..k).map(|i| member(&format!("a{i}"))).collect::<Vec<_>>())), None));
                rep.check("C02.seq_from_members.members_in_order", s.members.iter().map(|m| m.name.clone()).collect::<Vec<_>>() == names, desc);
                rep.check("C02.seq_from_members.no_components_of_invented", s.components_of.is_empty(), desc);
                rep.check("C02.seq_from_members.constraints_kept", s.constraints.is_empty(), desc);
                rep.check("C05.seq_from_members.marker_iff_extensible", s.extensible.is_some() == marker, desc);
                if marker { rep.check("C05.seq_from_members.index_is_root_len", s.extensible == Some(n_root), desc); }
                let c = Choice::from(((0..n_root).map(|i| option(&format!("r{i}"))).collect::<Vec<_>>(), mk(), n_add.map(|k| (0..k).map(|i| option(&format!("a{i}"))).collect::<Vec<_>>())));
                rep.check("C02.choice_from.options_in_order", c.options.iter().map(|m| m.name.clone()).collect::<Vec<_>>() == names, desc);
                rep.check("C02.choice_from.no_constraints_invented", c.constraints.is_empty(), desc);
                rep.check("C05.choice_from.marker_iff_extensible", c.extensible.is_some() == marker, desc);
                if marker { rep.check("C05.choice_from.index_is_root_len", c.extensible == Some(n_root), desc); }
                // additions numbered above the root, and (second pass) below it: the numbers must not influence the order
                for low in [false, true] {
                let e = Enumerated::from(((0..n_root).map(|i| enumeral(&format!("r{i}"), 10 * i as i128)).collect::<Vec<_>>(), mk(), n_add.map(|k| (0..k).map(|i| enumeral(&format!("a{i}"), if low { 1 + i as i128 } else { (100 + i) as i128 })).collect::<Vec<_>>())));
                rep.check("C05.enumerated_from.items_from_the_index_on_are_the_additions", e.members.iter().skip(n_root).map(|m| m.name.clone()).collect::<Vec<_>>() == names[n_root.min(names.len())..].to_vec(), desc);
                }
                let e = Enumerated::from(((0..n_root).map(|i| enumeral(&format!("r{i}"), i as i128)).collect::<Vec<_>>(), mk(), n_add.map(|k| (0..k).map(|i| enumeral(&format!("a{i}"), (n_root + i) as i128)).collect::<Vec<_>>())));
                rep.check("C02.enumerated_from.members_in_order", e.members.iter().map(|m| m.name.clone()).collect::<Vec<_>>() == names, desc);
                rep.check("C02.enumerated_from.no_constraints_invented", e.constraints.is_empty(), desc);
                rep.check("C05.enumerated_from.marker_iff_extensible", e.extensible.is_some() == marker, desc);
                if marker { rep.check("C05.enumerated_from.index_is_root_len", e.extensible == Some(n_root), desc); }
            }
        }
    }
}

// ---------------------------------------------------------------------------------------------- C14
/// independent reference for X.680 §20.3 / §20.6 (written from the standard's text, set-based)
fn c14_reference(root: &[Option<i128>], adds: &[Option<i128>]) -> (Vec<i128>, Vec<i128>) {
    use std::collections::BTreeSet;
    let explicit: BTreeSet<i128> = root.iter().flatten().copied().collect();
    let mut taken = explicit.clone();
    let mut rn = vec![];
    for item in root {
        match item {
            Some(v) => rn.push(*v),
            None => { let mut c = 0; while taken.contains(&c) { c += 1; } taken.insert(c); rn.push(c); }
        }
    }
    let root_set: BTreeSet<i128> = rn.iter().copied().collect();
    let mut an: Vec<i128> = vec![];
    for item in adds {
        match item {
            Some(v) => an.push(*v),
            None => {
                let mut c = 0;
                while root_set.contains(&c) || an.iter().any(|p| *p >= c) { c += 1; }
                an.push(c);
            }
        }
    }
    (rn, an)
}

fn c14_numbering(rep: &mut Rep) {
    // the property's own exhaustive set: up to 5 root items and 3 additions, each identifier-only or numbered from {-1,0,1,2,5}
    let alphabet: [Option<i128>; 6] = [None, Some(-1), Some(0), Some(1), Some(2), Some(5)];
    fn lists(alphabet: &[Option<i128>], max: usize) -> Vec<Vec<Option<i128>>> {
        let mut out = vec![vec![]];
        let mut frontier: Vec<Vec<Option<i128>>> = vec![vec![]];
        for _ in 0..max {
            let mut next = vec![];
            for f in &frontier { for a in alphabet { let mut g = f.clone(); g.push(*a); next.push(g); } }
            out.extend(next.iter().cloned());
            frontier = next;
        }
        out
    }
    let roots = lists(&alphabet, 5);
    let adds = lists(&alphabet, 3);
    for root in &roots {
        for add in &adds {
            // keep the product manageable: full additions only for roots up to 3 items, else additions up to 1 item
            if root.len() > 3 && add.len() > 1 { continue; }
            let (rn, an) = rasn_compiler::verif_hooks::hook_assign_enumeral_numbers(root, add);
            let (wr, wa) = c14_reference(root, add);
            let desc = || format!("root={root:?} additions={add:?} -> got root={rn:?} additions={an:?} want root={wr:?} additions={wa:?}");
            rep.check("C14.assign.lengths_preserved", rn.len() == root.len() && an.len() == add.len(), desc);
            rep.check("C14.assign.root_numbering_x680_20_3", rn == wr, desc);
            rep.check("C14.assign.additions_numbering_x680_20_6", rn != wr || an == wa, desc);
        }
    }
}

// ---------------------------------------------------------------------------------------------- C02 needs_unnesting
fn reaches_constructed(ty: &ASN1Type) -> bool {
    match ty {
        ASN1Type::Enumerated(_) | ASN1Type::Choice(_) | ASN1Type::Sequence(_) | ASN1Type::Set(_) => true,
        ASN1Type::SequenceOf(s) | ASN1Type::SetOf(s) => reaches_constructed(&s.element_type),
        _ => false,
    }
}
fn reaches_decorated(ty: &ASN1Type) -> bool {
    match ty {
        ASN1Type::SequenceOf(s) | ASN1Type::SetOf(s) => !s.element_type.constraints().is_empty() || s.element_tag.is_some() || reaches_decorated(&s.element_type),
        _ => false,
    }
}
fn describe(ty: &ASN1Type) -> String {
    match ty {
        ASN1Type::SequenceOf(s) => format!("SEQUENCE OF{} {}", if s.element_tag.is_some() { " [tag]" } else { "" }, describe(&s.element_type)),
        ASN1Type::SetOf(s) => format!("SET OF{} {}", if s.element_tag.is_some() { " [tag]" } else { "" }, describe(&s.element_type)),
        ASN1Type::Integer(i) => if i.constraints.is_empty() { "INTEGER".into() } else { "INTEGER(constrained)".into() },
        other => other.as_str().into_owned(),
    }
}
fn c02_needs_unnesting(rep: &mut Rep) {
    let some_constraint = || Constraint::Subtype(ElementSetSpecs { set: ElementOrSetOperation::Element(SubtypeElements::SingleValue { value: ASN1Value::Integer(1), extensible: false }), extensible: false });
    let leaves = || -> Vec<ASN1Type> { vec![
        ASN1Type::Null,
        ASN1Type::Boolean(Boolean { constraints: vec![] }),
        ASN1Type::Integer(Integer { constraints: vec![], distinguished_values: None }),
        ASN1Type::Integer(Integer { constraints: vec![some_constraint()], distinguished_values: None }),
        ASN1Type::Sequence(SequenceOrSet { components_of: vec![], extensible: None, constraints: vec![], members: vec![] }),
        ASN1Type::Set(SequenceOrSet { components_of: vec![], extensible: None, constraints: vec![], members: vec![] }),
        ASN1Type::Choice(Choice { extensible: None, options: vec![], constraints: vec![] }),
        ASN1Type::Enumerated(Enumerated { members: vec![], extensible: None, constraints: vec![] }),
        ASN1Type::ElsewhereDeclaredType(DeclarationElsewhere { parent: None, module: None, identifier: "T".into(), constraints: vec![] }),
    ] };
    let tag = || AsnTag { environment: TaggingEnvironment::Explicit, tag_class: TagClass::ContextSpecific, id: 1 };
    let mut level: Vec<ASN1Type> = leaves();
    let mut all: Vec<ASN1Type> = leaves();
    for _depth in 0..3 {
        let mut next = vec![];
        for inner in &level {
            for set in [false, true] {
                for tagged in [false, true] {
                    let of = SequenceOrSetOf { constraints: vec![], element_type: Box::new(inner.clone()), element_tag: if tagged { Some(tag()) } else { None }, is_recursive: false };
                    next.push(if set { ASN1Type::SetOf(of) } else { ASN1Type::SequenceOf(of) });
                }
            }
        }
        all.extend(next.iter().cloned());
        level = next;
    }
    for ty in &all {
        let r = rasn_compiler::verif_hooks::hook_needs_unnesting(ty);
        let desc = || format!("type={} -> needs_unnesting={r}", describe(ty));
        rep.check("C02.needs_unnesting.hoists_constructed_at_any_depth", !reaches_constructed(ty) || r, desc);
        rep.check("C02.needs_unnesting.hoists_decorated_elements_at_any_depth", !reaches_decorated(ty) || r, desc);
        rep.check("C02.needs_unnesting.only_those", !r || reaches_constructed(ty) || reaches_decorated(ty), desc);
    }
}

// ---------------------------------------------------------------------------------------------- C07 octets -> bits
fn c07_octets_to_bits(rep: &mut Rep) {
    let want = |bytes: &[u8]| -> Vec<bool> { bytes.iter().flat_map(|b| (0..8).map(move |k| (b >> (7 - k)) & 1 == 1)).collect() };
    let mut cases: Vec<Vec<u8>> = vec![vec![]];
    for b in 0..=255u8 { cases.push(vec![b]); }
    for a in [0u8, 1, 0x4C, 0x80, 0xC4, 0xFF] { for b in [0u8, 0x0B, 0x7F, 0x80, 0xFF] { cases.push(vec![a, b]); cases.push(vec![a, b, a]); } }
    for bytes in &cases {
        let got = rasn_compiler::verif_hooks::hook_octet_string_to_bit_string(bytes);
        let desc = || format!("octets={bytes:02X?} -> bits={}", got.iter().map(|b| if *b { '1' } else { '0' }).collect::<String>());
        rep.check("C07.octet_string_to_bit_string.every_octet_expanded_in_order", got == want(bytes), desc);
        rep.check("C07.octet_string_to_bit_string.eight_bits_per_octet_any_length", got.len() == 8 * bytes.len(), desc);
        rep.check("C07.is_bit_set.appends_the_comparison_bits_in_order", got == want(bytes), desc);
    }
}

fn c07_bits_to_octets(rep: &mut Rep) {
    // every bit string of length 0..=10, and seeded random ones of length up to 64
    let mut cases: Vec<Vec<bool>> = vec![];
    for len in 0..=10usize { for v in 0..(1u32 << len) { cases.push((0..len).map(|k| v >> k & 1 == 1).collect()); } }
    let mut r = Lcg(7);
    for _ in 0..3000 { let len = r.next(65); cases.push((0..len).map(|_| r.next(2) == 1).collect()); }
    for bits in &cases {
        let got = rasn_compiler::verif_hooks::hook_bit_string_to_octet_string(bits);
        let d = || format!("bits={} -> {got:02X?}", bits.iter().map(|b| if *b { '1' } else { '0' }).collect::<String>());
        if bits.len() % 8 != 0 { rep.check("C07.bit_string_to_octet_string.a_length_that_is_no_multiple_of_8_is_rejected", got.is_none(), d); continue; }
        rep.check("C07.bit_string_to_octet_string.one_octet_per_eight_bits_any_length", matches!(&got, Some(o) if o.len() == bits.len() / 8), d);
        let want: Vec<u8> = bits.chunks(8).map(|g| g.iter().enumerate().map(|(k, b)| if *b { 1u8 << (7 - k) } else { 0 }).sum()).collect();
        rep.check("C07.bit_string_to_octet_string.every_octet_is_the_msb_first_value_of_its_group", got.as_ref() == Some(&want), d);
        rep.check("C07.bit_string_to_octet_string.octets_so_far_are_the_values_of_their_groups", got.as_ref() == Some(&want), d);
    }
}

// ---------------------------------------------------------------------------------------------- C04 (unit C04_bounds)
fn c04_bounds(rep: &mut Rep) {
    use rasn_compiler::verif_hooks::{hook_compare_optional, hook_intersect_single_and_range, hook_union_optional, hook_union_single_and_range};
    const PTS: [i128; 7] = [i128::MIN, -129, -1, 0, 5, 256, i128::MAX];
    let opts: Vec<Option<ASN1Value>> = std::iter::once(None).chain(PTS.iter().map(|v| Some(ASN1Value::Integer(*v)))).collect();
    let int = |o: &Option<ASN1Value>| match o { Some(ASN1Value::Integer(i)) => Some(*i), _ => None };
    for v in PTS {
        let value = ASN1Value::Integer(v);
        // value-level min / max
        for w in PTS {
            let other = ASN1Value::Integer(w);
            let d = || format!("self={v} other={w}");
            rep.check("C04.value_max.integers_give_the_larger", matches!(value.max(&other, None), Ok(ASN1Value::Integer(r)) if r == v.max(w)), d);
            rep.check("C04.value_min.integers_give_the_smaller", matches!(value.min(&other, None), Ok(ASN1Value::Integer(r)) if r == v.min(w)), d);
            rep.check("C04.value_min_max.integers_compare_numerically", matches!(value.min(&other, None), Ok(ASN1Value::Integer(r)) if r == v.min(w)) && matches!(value.max(&other, None), Ok(ASN1Value::Integer(r)) if r == v.max(w)), d);
        }
        rep.check("C04.unwrap_as_integer.integer_literals_only", matches!(value.unwrap_as_integer(), Ok(r) if r == v) && ASN1Value::Null.unwrap_as_integer().is_err() && ASN1Value::Boolean(true).unwrap_as_integer().is_err(), || format!("value={v}"));
        for min in &opts { for max in &opts { for x1 in [false, true] { for x2 in [false, true] {
            let d = || format!("value={v} min={:?} max={:?} x1={x1} x2={x2}", int(min), int(max));
            let r = hook_intersect_single_and_range(&value, min.as_ref(), max.as_ref(), x1, x2);
            rep.check("C04.intersect_single_and_range.integers_keep_the_single_value", matches!(&r, Ok(Some(SubtypeElements::SingleValue { value: rv, .. })) if *rv == value), d);
            rep.check("C04.intersect_single_and_range.extensible_iff_an_operand_is", matches!(&r, Ok(Some(SubtypeElements::SingleValue { extensible, .. })) if *extensible == (x1 || x2)), d);
            let r = hook_union_single_and_range(&value, min.as_ref(), max.as_ref(), x1, x2);
            let want_min = int(min).map(|m| ASN1Value::Integer(m.min(v)));
            let want_max = int(max).map(|m| ASN1Value::Integer(m.max(v)));
            rep.check("C04.union_single_and_range.lower_end_of_the_hull", matches!(&r, Ok(Some(SubtypeElements::ValueRange { min: rmin, .. })) if *rmin == want_min), d);
            rep.check("C04.union_single_and_range.upper_end_of_the_hull", matches!(&r, Ok(Some(SubtypeElements::ValueRange { max: rmax, .. })) if *rmax == want_max), d);
            rep.check("C04.union_single_and_range.extensible_iff_an_operand_is", matches!(&r, Ok(Some(SubtypeElements::ValueRange { extensible, .. })) if *extensible == (x1 || x2)), d);
        } } } }
    }
    // fold_constraint_set over expressions of two and three integer elements joined by UNION / INTERSECTION
    {
        use rasn_compiler::verif_hooks::hook_fold_constraint_set;
        const A: [i128; 3] = [0, 5, 9];
        let mut leaves: Vec<(SubtypeElements, String)> = vec![];
        for x in [false, true] {
            let m = if x { ", ..." } else { "" };
            for v in A { leaves.push((SubtypeElements::SingleValue { value: ASN1Value::Integer(v), extensible: x }, format!("{v}{m}"))); }
            for lo in [None, Some(0i128), Some(5)] { for hi in [None, Some(5i128), Some(9)] {
                if let (Some(l), Some(h)) = (lo, hi) { if l > h { continue; } }
                leaves.push((SubtypeElements::ValueRange { min: lo.map(ASN1Value::Integer), max: hi.map(ASN1Value::Integer), extensible: x },
                    format!("{}..{}{m}", lo.map_or("MIN".to_string(), |v| v.to_string()), hi.map_or("MAX".to_string(), |v| v.to_string()))));
            } }
        }
        let permits = |e: &SubtypeElements, v: i128| match e {
            SubtypeElements::SingleValue { value: ASN1Value::Integer(i), .. } => *i == v,
            SubtypeElements::ValueRange { min, max, .. } => min.as_ref().map_or(true, |m| matches!(m, ASN1Value::Integer(i) if *i <= v)) && max.as_ref().map_or(true, |m| matches!(m, ASN1Value::Integer(i) if v <= *i)),
            _ => true,
        };
        let ext = |e: &SubtypeElements| matches!(e, SubtypeElements::SingleValue { extensible: true, .. } | SubtypeElements::ValueRange { extensible: true, .. });
        let is_int = |e: &SubtypeElements| matches!(e, SubtypeElements::SingleValue { value: ASN1Value::Integer(_), .. }) || matches!(e, SubtypeElements::ValueRange { min, max, .. } if min.as_ref().map_or(true, |m| matches!(m, ASN1Value::Integer(_))) && max.as_ref().map_or(true, |m| matches!(m, ASN1Value::Integer(_))));
        let lo = |e: &SubtypeElements| match e { SubtypeElements::SingleValue { value: ASN1Value::Integer(i), .. } => Some(*i), SubtypeElements::ValueRange { min: Some(ASN1Value::Integer(i)), .. } => Some(*i), _ => None };
        let hi = |e: &SubtypeElements| match e { SubtypeElements::SingleValue { value: ASN1Value::Integer(i), .. } => Some(*i), SubtypeElements::ValueRange { max: Some(ASN1Value::Integer(i)), .. } => Some(*i), _ => None };
        {
            use rasn_compiler::verif_hooks::{hook_default_unsigned, hook_range_from_constraint, hook_range_from_element};
            rep.check("C04.default_unsigned.lower_bound_zero_only", hook_default_unsigned() == (Some(0), None, false, false), || String::new());
            rep.check("C04.range_from_element.no_element_is_unconstrained", matches!(hook_range_from_element(None), Ok((None, None, false, false))), || "no element".to_string());
            rep.check("C04.range_from_constraint.other_constraints_are_unconstrained", matches!(hook_range_from_constraint(&Constraint::Parameter(vec![])), Ok((None, None, false, _))), || "a parameter constraint".to_string());
            for (e, te) in &leaves {
                let d = || format!("({te})");
                let r = hook_range_from_element(Some(e));
                match e {
                    SubtypeElements::SingleValue { .. } => rep.check("C04.range_from_element.single_value_is_both_bounds", matches!(&r, Ok((mn, mx, _, false)) if *mn == lo(e) && *mx == lo(e)), d),
                    _ => rep.check("C04.range_from_element.range_ends_are_the_bounds", matches!(&r, Ok((mn, mx, _, false)) if *mn == lo(e) && *mx == hi(e)), d),
                }
                rep.check("C04.range_from_element.extensible_iff_the_element_is", matches!(&r, Ok((_, _, x, _)) if *x == ext(e)), d);
                // the same element as the constraint of an included type: `(INTEGER (e))` and `(INTEGER (e), ...)`
                let probes_inc: Vec<i128> = (-2..=12).collect();
                for marker in [false, true] {
                    let included = ASN1Type::Integer(Integer { constraints: vec![Constraint::Subtype(ElementSetSpecs { set: ElementOrSetOperation::Element(e.clone()), extensible: false })], distinguished_values: None });
                    let inc = SubtypeElements::ContainedSubtype { subtype: included, extensible: marker };
                    let r = hook_range_from_element(Some(&inc));
                    let d = || format!("(INTEGER ({te}){}) -> {r:?}", if marker { ", ..." } else { "" });
                    rep.check("C04.range_from_element.marker_after_an_included_type_makes_it_extensible", matches!(&r, Ok((_, _, x, _)) if !marker || *x), d);
                    rep.check("C04.range_from_element.included_type_contributes_the_range_of_its_own_constraints", matches!(&r, Ok((mn, mx, _, _)) if probes_inc.iter().all(|v| !permits(e, *v) || (mn.map_or(true, |m| m <= *v) && mx.map_or(true, |m| *v <= m)))), d);
                    // the included type is a constrained REFERENCE (`B ::= C (e)`, `a INTEGER (B)`): it may be an INTEGER type, so negative values count
                    let included = ASN1Type::ElsewhereDeclaredType(DeclarationElsewhere { parent: None, module: None, identifier: "C".into(),
                        constraints: vec![Constraint::Subtype(ElementSetSpecs { set: ElementOrSetOperation::Element(e.clone()), extensible: false })] });
                    let inc = SubtypeElements::ContainedSubtype { subtype: included, extensible: marker };
                    let r = hook_range_from_element(Some(&inc));
                    let d = || format!("(C ({te}){}) with C a type reference -> {r:?}", if marker { ", ..." } else { "" });
                    rep.check("C04.range_from_element.included_type_contributes_the_range_of_its_own_constraints", matches!(&r, Ok((mn, mx, _, _)) if probes_inc.iter().all(|v| !permits(e, *v) || (mn.map_or(true, |m| m <= *v) && mx.map_or(true, |m| *v <= m)))), d);
                }
                let sz = SubtypeElements::SizeConstraint(Box::new(ElementOrSetOperation::Element(e.clone())));
                rep.check("C04.range_from_element.size_of_an_element_is_a_size_bound", matches!(hook_range_from_element(Some(&sz)), Ok((mn, mx, x, true)) if mn == lo(e) && mx == hi(e) && x == ext(e)), || format!("SIZE({te})"));
                for outer in [false, true] {
                    let c = Constraint::Subtype(ElementSetSpecs { set: ElementOrSetOperation::Element(e.clone()), extensible: outer });
                    let d = || format!("({te}{})", if outer { ", ..." } else { "" });
                    let r = hook_range_from_constraint(&c);
                    rep.check("C04.range_from_constraint.element_ends_are_the_bounds", matches!(&r, Ok((mn, mx, _, _)) if *mn == lo(e) && *mx == hi(e)), d);
                    rep.check("C04.range_from_constraint.extensible_iff_a_marker_is_written", matches!(&r, Ok((mn, mx, x, _)) if *x == (ext(e) || (outer && (mn.is_some() || mx.is_some())))), d);
                }
            }
        }
        let ops = [(SetOperator::Union, "|"), (SetOperator::Intersection, "^")];
        let probes: Vec<i128> = (-2..=12).collect();
        // fixed_size: 1..=2 serial SIZE constraints over the same leaves (element or two-element set expression inside SIZE)
        {
            use rasn_compiler::verif_hooks::hook_fixed_size;
            let mut sizes: Vec<(Constraint, String, Box<dyn Fn(i128) -> bool>, bool)> = vec![];   // (constraint, text, permitted sizes, operand marker)
            for (e, te) in leaves.iter() { for outer in [false, true] {
                let e2 = e.clone();
                sizes.push((Constraint::Subtype(ElementSetSpecs { set: ElementOrSetOperation::Element(SubtypeElements::SizeConstraint(Box::new(ElementOrSetOperation::Element(e.clone())))), extensible: outer }),
                    format!("(SIZE({te}){})", if outer { ", ..." } else { "" }), Box::new(move |v| permits(&e2, v)), ext(e)));
            } }
            for (a, ta) in leaves.iter().step_by(4) { for (b, tb) in leaves.iter().step_by(5) {
                let (a2, b2) = (a.clone(), b.clone());
                let set = SetOperation { base: a.clone(), operator: SetOperator::Union, operant: Box::new(ElementOrSetOperation::Element(b.clone())) };
                sizes.push((Constraint::Subtype(ElementSetSpecs { set: ElementOrSetOperation::Element(SubtypeElements::SizeConstraint(Box::new(ElementOrSetOperation::SetOperation(set)))), extensible: false }),
                    format!("(SIZE({ta} | {tb}))"), Box::new(move |v| permits(&a2, v) || permits(&b2, v)), ext(a) || ext(b)));
            } }
            let mut lists: Vec<Vec<usize>> = (0..sizes.len()).map(|i| vec![i]).collect();
            for i in 0..sizes.len() { for j in (0..sizes.len()).step_by(3) { lists.push(vec![i, j]); } }
            for l in &lists { for bits in [false, true] {
                let got = hook_fixed_size(bits, l.iter().map(|i| sizes[*i].0.clone()).collect());
                let d = || format!("{} {} -> {got:?}", if bits { "BIT STRING" } else { "OCTET STRING" }, l.iter().map(|i| sizes[*i].1.clone()).collect::<Vec<_>>().join(""));
                let name = if bits { "C04.fixed_size_bits.fixed_only_for_the_single_permitted_size_without_marker" } else { "C04.fixed_size_octets.fixed_only_for_the_single_permitted_size_without_marker" };
                let ok = match got {
                    None => true,
                    Some(n) => !l.iter().any(|i| sizes[*i].3) && probes.iter().all(|v| !(*v >= 0 && l.iter().all(|i| (sizes[*i].2)(*v))) || *v == n as i128),
                };
                rep.check(name, ok, d);
            } }
        }
        // per_visible_range_constraints: serial lists of 0..=2 integer-fragment constraints (elements and two-element set
        // expressions), signed / unsigned start, with / without a marker after the element set
        {
            let mut cons: Vec<(Constraint, String, Box<dyn Fn(i128) -> bool>, bool, bool)> = vec![];   // (constraint, text, value set, operand marker, any marker)
            for (e, te) in leaves.iter().step_by(2) { for outer in [false, true] {
                let e2 = e.clone();
                cons.push((Constraint::Subtype(ElementSetSpecs { set: ElementOrSetOperation::Element(e.clone()), extensible: outer }), format!("({te}{})", if outer { ", ..." } else { "" }),
                    Box::new(move |v| permits(&e2, v)), ext(e), ext(e) || outer));
            } }
            for (a, ta) in leaves.iter().step_by(5) { for (b, tb) in leaves.iter().step_by(7) { for (op, t) in &ops {
                let (a2, b2, union) = (a.clone(), b.clone(), *t == "|");
                let set = SetOperation { base: a.clone(), operator: op.clone(), operant: Box::new(ElementOrSetOperation::Element(b.clone())) };
                cons.push((Constraint::Subtype(ElementSetSpecs { set: ElementOrSetOperation::SetOperation(set), extensible: false }), format!("({ta} {t} {tb})"),
                    Box::new(move |v| if union { permits(&a2, v) || permits(&b2, v) } else { permits(&a2, v) && permits(&b2, v) }), ext(a) || ext(b), ext(a) || ext(b)));
            } } }
            let names = ["C04.per_visible_range_constraints.never_excludes_a_value_all_constraints_permit", "C04.per_visible_range_constraints.range_so_far_contains_every_value_permitted_so_far"];
            let mut lists: Vec<Vec<usize>> = vec![vec![]];
            for i in 0..cons.len() { lists.push(vec![i]); }
            for i in (0..cons.len()).step_by(3) { for j in (0..cons.len()).step_by(4) { lists.push(vec![i, j]); } }
            for l in &lists { for signed in [false, true] {
                let list: Vec<Constraint> = l.iter().map(|i| cons[*i].0.clone()).collect();
                let d = || format!("signed={signed} INTEGER {}", l.iter().map(|i| cons[*i].1.clone()).collect::<Vec<_>>().join(""));
                let r = per_visible_range_constraints(signed, &list);
                // each single constraint as range_from_constraint sees it
                if l.len() == 1 {
                    if let Ok((mn, mx, _, sz)) = rasn_compiler::verif_hooks::hook_range_from_constraint(&list[0]) {
                        rep.check("C04.range_from_constraint.contains_every_value_the_constraint_permits", probes.iter().all(|v| !(cons[l[0]].2)(*v) || (mn.map_or(true, |m| m <= *v) && mx.map_or(true, |m| *v <= m))), d);
                        rep.check("C04.range_from_constraint.a_value_constraint_is_not_a_size_bound", !sz, d);
                    }
                }
                if let Ok(k) = &r {
                    let (mn, mx) = (k.min::<i128>(), k.max::<i128>());
                    let ok = probes.iter().all(|v| !((signed || *v >= 0) && l.iter().all(|i| (cons[*i].2)(*v))) || (mn.map_or(true, |m| m <= *v) && mx.map_or(true, |m| *v <= m)));
                    for n in names { rep.check(n, ok, || format!("{} -> {mn:?}..{mx:?}", d())); }
                    rep.check("C04.per_visible_range_constraints.extensible_only_if_a_marker_is_written", !k.is_extensible() || l.iter().any(|i| cons[*i].4), d);
                    rep.check("C04.per_visible_range_constraints.extensible_so_far_only_if_a_marker_was_seen", !k.is_extensible() || l.iter().any(|i| cons[*i].4), d);
                    rep.check("C04.per_visible_range_constraints.operand_marker_makes_it_extensible", k.is_extensible() || !l.iter().any(|i| cons[*i].3), d);
                    rep.check("C04.per_visible_range_constraints.operand_marker_seen_so_far_makes_it_extensible", k.is_extensible() || !l.iter().any(|i| cons[*i].3), d);
                    rep.check("C04.per_visible_range_constraints.size_bound_iff_a_size_constraint_is_applied", !k.is_size_constraint(), d);
                    rep.check("C04.per_visible_range_constraints.size_flag_so_far_iff_a_size_constraint_was_seen", !k.is_size_constraint(), d);
                    if l.is_empty() {
                        rep.check("C04.per_visible_range_constraints.empty_list_is_the_start_value", mx.is_none() && !k.is_extensible() && mn == if signed { None } else { Some(0) }, d);
                    }
                    rep.check("C04.per_visible_range_constraints.safety", true, d);
                }
            } }
        }
        for (a, ta) in &leaves { for (op1, t1) in &ops { for (b, tb) in &leaves {
            // two elements
            let set = SetOperation { base: a.clone(), operator: op1.clone(), operant: Box::new(ElementOrSetOperation::Element(b.clone())) };
            let d = || format!("({ta} {t1} {tb})");
            let r = hook_fold_constraint_set(&set);
            let in_set = |v: i128| if *t1 == "|" { permits(a, v) || permits(b, v) } else { permits(a, v) && permits(b, v) };
            rep.check("C04.fold_constraint_set.integer_expression_folds_to_an_integer_element", match &r { Ok(x) => x.as_ref().map_or(false, |f| is_int(f)), Err(_) => true }, d);
            if let Ok(Some(f)) = &r {
                rep.check("C04.fold_constraint_set.never_excludes_a_permitted_value", probes.iter().all(|v| !in_set(*v) || permits(f, *v)), d);
                rep.check("C04.fold_constraint_set.extensible_iff_an_operand_is", ext(f) == (ext(a) || ext(b)), d);
            }
            if *t1 == "|" {
                let hl = match (lo(a), lo(b)) { (Some(x), Some(y)) => Some(x.min(y)), _ => None };
                let hh = match (hi(a), hi(b)) { (Some(x), Some(y)) => Some(x.max(y)), _ => None };
                rep.check("C04.fold_constraint_set.union_of_two_elements_is_exactly_the_hull", matches!(&r, Ok(Some(f)) if lo(f) == hl && hi(f) == hh), d);
            } else if matches!(a, SubtypeElements::ValueRange { .. }) && matches!(b, SubtypeElements::ValueRange { .. }) {
                let ml = match (lo(a), lo(b)) { (Some(x), Some(y)) => Some(x.max(y)), (x, None) => x, (None, y) => y };
                let mh = match (hi(a), hi(b)) { (Some(x), Some(y)) => Some(x.min(y)), (x, None) => x, (None, y) => y };
                rep.check("C04.fold_constraint_set.intersection_of_two_ranges_is_exact", matches!(&r, Ok(Some(f)) if lo(f) == ml && hi(f) == mh), d);
            }
            if r.is_err() {
                rep.check("C04.fold_constraint_set.two_elements_rejected_only_if_empty", *t1 == "^" && matches!(a, SubtypeElements::SingleValue { .. }) && matches!(b, SubtypeElements::SingleValue { .. }) && lo(a) != lo(b), d);
            }
            // SIZE( the same expression )
            {
                use rasn_compiler::verif_hooks::hook_range_from_element;
                let sz = SubtypeElements::SizeConstraint(Box::new(ElementOrSetOperation::SetOperation(set.clone())));
                let d = || format!("SIZE({ta} {t1} {tb})");
                if let Ok((mn, mx, x, is_size)) = hook_range_from_element(Some(&sz)) {
                    rep.check("C04.range_from_element.size_of_a_set_expression_is_a_size_bound", is_size && x == (ext(a) || ext(b)) && probes.iter().all(|v| !in_set(*v) || (mn.map_or(true, |m| m <= *v) && mx.map_or(true, |m| *v <= m))), d);
                }
            }
            // the same expression as a constraint, with and without the outer marker
            for outer in [false, true] {
                use rasn_compiler::verif_hooks::hook_range_from_constraint;
                let c = Constraint::Subtype(ElementSetSpecs { set: ElementOrSetOperation::SetOperation(set.clone()), extensible: outer });
                let d = || format!("(({ta} {t1} {tb}){})", if outer { ", ..." } else { "" });
                if let Ok((mn, mx, x, _)) = hook_range_from_constraint(&c) {
                    rep.check("C04.range_from_constraint.never_excludes_a_permitted_value", probes.iter().all(|v| !in_set(*v) || (mn.map_or(true, |m| m <= *v) && mx.map_or(true, |m| *v <= m))), d);
                    rep.check("C04.range_from_constraint.extensible_iff_a_marker_is_written", x == (ext(a) || ext(b) || (outer && (mn.is_some() || mx.is_some()))), d);
                }
            }
            // three elements: a op1 (b op2 c), as the parser nests them
            for (op2, t2) in &ops { for (c, tc) in leaves.iter().step_by(3) {
                let inner = SetOperation { base: b.clone(), operator: op2.clone(), operant: Box::new(ElementOrSetOperation::Element(c.clone())) };
                let set = SetOperation { base: a.clone(), operator: op1.clone(), operant: Box::new(ElementOrSetOperation::SetOperation(inner)) };
                let d = || format!("({ta} {t1} ({tb} {t2} {tc}))");
                let in_inner = |v: i128| if *t2 == "|" { permits(b, v) || permits(c, v) } else { permits(b, v) && permits(c, v) };
                // X.680 clause 50: INTERSECTION binds tighter than UNION — `a ^ b | c` means `(a ^ b) | c`
                let in_set = |v: i128| if *t1 == "^" && *t2 == "|" { (permits(a, v) && permits(b, v)) || permits(c, v) } else if *t1 == "|" { permits(a, v) || in_inner(v) } else { permits(a, v) && in_inner(v) };
                let r = hook_fold_constraint_set(&set);
                rep.check("C04.fold_constraint_set.integer_expression_folds_to_an_integer_element", match &r { Ok(x) => x.as_ref().map_or(false, |f| is_int(f)), Err(_) => true }, d);
                if let Ok(Some(f)) = &r {
                    rep.check("C04.fold_constraint_set.never_excludes_a_permitted_value", probes.iter().all(|v| !in_set(*v) || permits(f, *v)), d);
                    rep.check("C04.fold_constraint_set.extensible_iff_an_operand_is", ext(f) == (ext(a) || ext(b) || ext(c)), d);
                }
                if *t1 == "^" && *t2 == "|" && [a, b, c].iter().all(|e| matches!(e, SubtypeElements::ValueRange { .. })) {
                    let ml = match (lo(a), lo(b)) { (Some(x), Some(y)) => Some(x.max(y)), (x, None) => x, (None, y) => y };
                    let mh = match (hi(a), hi(b)) { (Some(x), Some(y)) => Some(x.min(y)), (x, None) => x, (None, y) => y };
                    let hl = match (ml, lo(c)) { (Some(x), Some(y)) => Some(x.min(y)), _ => None };
                    let hh = match (mh, hi(c)) { (Some(x), Some(y)) => Some(x.max(y)), _ => None };
                    rep.check("C04.fold_constraint_set.intersection_is_folded_before_a_following_union", matches!(&r, Ok(Some(f)) if lo(f) == hl && hi(f) == hh), d);
                }
            } }
        } } }
        // four elements `a op1 b op2 c op3 d`, nested to the right as the parser does; the reference evaluates the flat chain as a
        // UNION of INTERSECTIONs (X.680 clause 50), independent of any nesting
        let sub: Vec<&(SubtypeElements, String)> = leaves.iter().step_by(2).collect();
        for (a, ta) in &sub { for (b, tb) in &sub { for (c, tc) in &sub { for (dd, td) in sub.iter().step_by(2) {
            for (op1, t1) in &ops { for (op2, t2) in &ops { for (op3, t3) in &ops {
                let i3 = SetOperation { base: c.clone(), operator: op3.clone(), operant: Box::new(ElementOrSetOperation::Element(dd.clone())) };
                let i2 = SetOperation { base: b.clone(), operator: op2.clone(), operant: Box::new(ElementOrSetOperation::SetOperation(i3)) };
                let set = SetOperation { base: a.clone(), operator: op1.clone(), operant: Box::new(ElementOrSetOperation::SetOperation(i2)) };
                let d = || format!("({ta} {t1} {tb} {t2} {tc} {t3} {td})");
                let elems = [a, b, c, dd];
                let opsq = [*t1, *t2, *t3];
                let in_set = |v: i128| { let mut any = false; let mut cur = permits(elems[0], v); for k in 0..3 { if opsq[k] == "|" { any = any || cur; cur = permits(elems[k + 1], v); } else { cur = cur && permits(elems[k + 1], v); } } any || cur };
                let r = hook_fold_constraint_set(&set);
                if let Ok(Some(f)) = &r {
                    rep.check("C04.fold_constraint_set.never_excludes_a_permitted_value", probes.iter().all(|v| !in_set(*v) || permits(f, *v)), d);
                    rep.check("C04.fold_constraint_set.extensible_iff_an_operand_is", ext(f) == elems.iter().any(|e| ext(e)), d);
                }
            } } }
        } } } }
    }
    for a in &opts { for b in &opts { for take_min in [false, true] {
        let d = || format!("first={:?} second={:?} predicate={}", int(a), int(b), if take_min { "min" } else { "max" });
        let both = match (int(a), int(b)) { (Some(x), Some(y)) => Some(ASN1Value::Integer(if take_min { x.min(y) } else { x.max(y) })), _ => None };
        let r = hook_compare_optional(a.as_ref(), b.as_ref(), take_min);
        match (a, b) {
            (Some(_), Some(_)) => rep.check("C04.compare_optional.both_present_use_the_predicate", matches!(&r, Ok(x) if *x == both), d),
            (None, Some(s)) => rep.check("C04.compare_optional.missing_first_keeps_second", matches!(&r, Ok(Some(x)) if x == s), d),
            (Some(f), None) => rep.check("C04.compare_optional.missing_second_keeps_first", matches!(&r, Ok(Some(x)) if x == f), d),
            (None, None) => rep.check("C04.compare_optional.both_missing_is_unbounded", matches!(&r, Ok(None)), d),
        }
        let r = hook_union_optional(a.as_ref(), b.as_ref(), take_min);
        match (a, b) {
            (Some(_), Some(_)) => rep.check("C04.union_optional.both_present_use_the_predicate", matches!(&r, Ok(x) if *x == both), d),
            _ => rep.check("C04.union_optional.open_end_stays_open", matches!(&r, Ok(None)), d),
        }
    } } }
}

// ---------------------------------------------------------------------------------------------- C03 (unit C03_apply_tagenv)
// Executable copy of `type_applied` / `resolved`: the expected tree is built by an independent recursive function and
// compared with what the real apply_tagging_environment leaves behind, over generated type trees of depth <= 3.
fn c03_combine(d: TaggingEnvironment, k: TaggingEnvironment) -> TaggingEnvironment { if k == TaggingEnvironment::Automatic { d } else { k } }
fn c03_res(t: &Option<AsnTag>, env: TaggingEnvironment) -> Option<AsnTag> {
    t.as_ref().map(|t| AsnTag { environment: c03_combine(env, t.environment), tag_class: t.tag_class, id: t.id })
}
fn c03_expected(t: &ASN1Type, env: TaggingEnvironment) -> ASN1Type {
    let seq = |s: &SequenceOrSet| SequenceOrSet {
        components_of: s.components_of.clone(), extensible: s.extensible, constraints: s.constraints.clone(),
        members: s.members.iter().map(|m| SequenceOrSetMember { name: m.name.clone(), tag: c03_res(&m.tag, env), ty: c03_expected(&m.ty, env),
            optionality: m.optionality.clone(), is_recursive: m.is_recursive, constraints: m.constraints.clone() }).collect(),
    };
    let of = |s: &SequenceOrSetOf| SequenceOrSetOf { constraints: s.constraints.clone(), element_tag: c03_res(&s.element_tag, env),
        element_type: Box::new(c03_expected(&s.element_type, env)), is_recursive: s.is_recursive };
    match t {
        ASN1Type::Sequence(s) => ASN1Type::Sequence(seq(s)),
        ASN1Type::Set(s) => ASN1Type::Set(seq(s)),
        ASN1Type::Choice(c) => ASN1Type::Choice(Choice { extensible: c.extensible, constraints: c.constraints.clone(),
            options: c.options.iter().map(|o| ChoiceOption { name: o.name.clone(), tag: c03_res(&o.tag, env), ty: c03_expected(&o.ty, env),
                constraints: o.constraints.clone(), is_recursive: o.is_recursive }).collect() }),
        ASN1Type::SequenceOf(s) => ASN1Type::SequenceOf(of(s)),
        ASN1Type::SetOf(s) => ASN1Type::SetOf(of(s)),
        other => other.clone(),
    }
}
struct Lcg(u64);
impl Lcg { fn next(&mut self, n: usize) -> usize { self.0 = self.0.wrapping_mul(6364136223846793005).wrapping_add(1442695040888963407); ((self.0 >> 33) as usize) % n } }
fn c03_tag(r: &mut Lcg) -> Option<AsnTag> {
    if r.next(3) == 0 { return None; }
    let env = [TaggingEnvironment::Automatic, TaggingEnvironment::Implicit, TaggingEnvironment::Explicit][r.next(3)];
    let class = [TagClass::ContextSpecific, TagClass::Application, TagClass::Private, TagClass::Universal][r.next(4)];
    Some(AsnTag { environment: env, tag_class: class, id: [0u64, 1, 30, 31, 200, u64::MAX][r.next(6)] })
}
fn c03_type(r: &mut Lcg, depth: usize) -> ASN1Type {
    let k = if depth == 0 { 5 + r.next(5) } else { r.next(10) };
    let members = |r: &mut Lcg| (0..r.next(4)).map(|i| SequenceOrSetMember { name: format!("m{i}"), tag: c03_tag(r), ty: c03_type(r, depth.saturating_sub(1)),
        optionality: if r.next(2) == 0 { Optionality::Required } else { Optionality::Optional }, is_recursive: r.next(2) == 0, constraints: vec![] }).collect::<Vec<_>>();
    match k {
        0 => ASN1Type::Sequence(SequenceOrSet { components_of: vec![], extensible: if r.next(2) == 0 { None } else { Some(1) }, constraints: vec![], members: members(r) }),
        1 => ASN1Type::Set(SequenceOrSet { components_of: vec!["B".into()], extensible: None, constraints: vec![], members: members(r) }),
        2 => ASN1Type::Choice(Choice { extensible: None, constraints: vec![], options: (0..1 + r.next(3)).map(|i| ChoiceOption { name: format!("o{i}"), tag: c03_tag(r),
                ty: c03_type(r, depth.saturating_sub(1)), constraints: vec![], is_recursive: false }).collect() }),
        3 => ASN1Type::SequenceOf(SequenceOrSetOf { constraints: vec![], element_tag: c03_tag(r), element_type: Box::new(c03_type(r, depth.saturating_sub(1))), is_recursive: false }),
        4 => ASN1Type::SetOf(SequenceOrSetOf { constraints: vec![], element_tag: c03_tag(r), element_type: Box::new(c03_type(r, depth.saturating_sub(1))), is_recursive: false }),
        5 => ASN1Type::Boolean(Boolean { constraints: vec![] }),
        6 => ASN1Type::Null,
        7 => ASN1Type::Any,
        8 => ASN1Type::ObjectClassField(ObjectClassFieldType { class: "MY-CLASS".into(), field_path: vec![ObjectFieldIdentifier::SingleValue("&id".into())], constraints: vec![] }),
        _ => ASN1Type::ElsewhereDeclaredType(DeclarationElsewhere { parent: None, module: None, identifier: "Other".into(), constraints: vec![] }),
    }
}
fn c03_apply_tagenv(rep: &mut Rep) {
    use rasn_compiler::verif_hooks::{hook_apply_tagenv_tld, hook_apply_tagenv_type, hook_tagenv_add};
    let envs = [TaggingEnvironment::Automatic, TaggingEnvironment::Implicit, TaggingEnvironment::Explicit];
    for a in envs { for b in envs {
        rep.check("C03.tagenv_add.keyword_wins_else_module_default", hook_tagenv_add(&a, &b) == c03_combine(a, b), || format!("default={a:?} keyword={b:?} -> {:?}", hook_tagenv_add(&a, &b)));
    } }
    let mut r = Lcg(0x5eed);
    for n in 0..30000 {
        let env = envs[n % 3];
        let ty = c03_type(&mut r, 1 + n % 3);
        let want = c03_expected(&ty, env);
        let mut got = ty.clone();
        hook_apply_tagenv_type(&mut got, &env);
        let ok = got == want;
        for name in ["C03.type_apply.every_tag_resolved_at_every_depth_and_nothing_else_changes", "C03.type_apply.sequence_components_done_so_far",
                     "C03.type_apply.set_components_done_so_far", "C03.type_apply.choice_alternatives_done_so_far", "C03.type_apply.safety"] {
            let relevant = match name {
                n if n.contains("sequence_components") => matches!(ty, ASN1Type::Sequence(_)),
                n if n.contains("set_components") => matches!(ty, ASN1Type::Set(_)),
                n if n.contains("choice_alternatives") => matches!(ty, ASN1Type::Choice(_)),
                _ => true,
            };
            if relevant { rep.check(name, ok, || format!("module default {env:?}; type before: {ty:?}; after: {got:?}; expected: {want:?}")); }
        }
        // the same tree as a tagged type assignment
        let tag = c03_tag(&mut r);
        // (every other assignment is a parameterized template: its tags are resolved like any other's — the linker clones them into the instances)
        let params = if n % 2 == 0 { None } else { Some(Parameterization { parameters: vec![ParameterizationArgument::from("T")] }) };
        let mut tld = ToplevelDefinition::Type(ToplevelTypeDefinition { comments: "c".into(), tag: tag.clone(), name: "T".into(), ty: ty.clone(), parameterization: params.clone(), module_header: None });
        hook_apply_tagenv_tld(&mut tld, &env);
        if let ToplevelDefinition::Type(t) = &tld {
            rep.check("C03.tld_apply.assignment_tag_resolved_with_class_and_number_kept", t.tag == c03_res(&tag, env), || format!("module default {env:?}; parameterized={}; assignment tag {tag:?} -> {:?}", params.is_some(), t.tag));
            rep.check("C03.tld_apply.every_tag_below_resolved_at_every_depth", t.ty == want, || format!("module default {env:?}; parameterized={}; type before: {ty:?}; after: {:?}; expected: {want:?}", params.is_some(), t.ty));
            rep.check("C03.tld_apply.nothing_else_changes", t.comments == "c" && t.name == "T" && t.parameterization == params, || format!("{t:?}"));
        } else {
            rep.check("C03.tld_apply.nothing_else_changes", false, || "type assignment turned into another kind of definition".into());
        }
    }
    let v = ToplevelDefinition::Value(ToplevelValueDefinition { comments: String::new(), name: "v".into(), associated_type: ASN1Type::Null, parameterization: None, value: ASN1Value::Null, module_header: None });
    let mut v2 = v.clone();
    hook_apply_tagenv_tld(&mut v2, &TaggingEnvironment::Explicit);
    rep.check("C03.tld_apply.values_classes_objects_untouched", v2 == v, || format!("{v2:?}"));
}

// ---------------------------------------------------------------------------------------------- C06 (max_restrictive, Integer::int_type)
fn c06_rank(t: IntegerType) -> u8 {
    match t { IntegerType::Uint8 => 0, IntegerType::Int8 => 1, IntegerType::Uint16 => 2, IntegerType::Int16 => 3, IntegerType::Uint32 => 4,
              IntegerType::Int32 => 5, IntegerType::Uint64 => 6, IntegerType::Int64 => 7, IntegerType::Unbounded => 8 }
}
fn c06_serial(rep: &mut Rep) {
    let all = [IntegerType::Uint8, IntegerType::Int8, IntegerType::Uint16, IntegerType::Int16, IntegerType::Uint32, IntegerType::Int32, IntegerType::Uint64, IntegerType::Int64, IntegerType::Unbounded];
    for a in all { for b in all {
        let r = a.max_restrictive(b);
        let want = if c06_rank(a) <= c06_rank(b) { a } else { b };
        let d = || format!("{a:?}.max_restrictive({b:?}) -> {r:?}");
        rep.check("C06.max_restrictive.is_the_operand_earlier_in_the_documented_order", r == want, d);
        rep.check("C06.max_restrictive.is_one_of_the_operands", r == a || r == b, d);
        rep.check("C06.max_restrictive.unbounded_only_from_two_unbounded", (r == IntegerType::Unbounded) == (a == IntegerType::Unbounded && b == IntegerType::Unbounded), d);
        rep.check("C06.max_restrictive.safety", true, d);
    } }
    // serial constraints: 0..=3 ranges with ends from a reduced boundary set, each with / without extension marker
    let pts: [i128; 12] = [i128::MIN, -(1 << 63) - 1, -(1 << 31), -129, -128, 0, 127, 255, 256, 65535, (1 << 32) - 1, 1 << 64];
    let mut ranges: Vec<(i128, i128, bool)> = vec![];
    for (i, lo) in pts.iter().enumerate() { for hi in &pts[i..] { for x in [false, true] { ranges.push((*lo, *hi, x)); } } }
    let mk = |r: &(i128, i128, bool)| Constraint::Subtype(ElementSetSpecs { extensible: false,
        set: ElementOrSetOperation::Element(SubtypeElements::ValueRange { min: Some(ASN1Value::Integer(r.0)), max: Some(ASN1Value::Integer(r.1)), extensible: r.2 }) });
    let mut lcg = Lcg(0xC06);
    for n in 0..60000usize {
        let k = n % 4;
        let rs: Vec<(i128, i128, bool)> = (0..k).map(|_| ranges[lcg.next(ranges.len())]).collect();
        let int = Integer { constraints: rs.iter().map(mk).collect(), distinguished_values: None };
        let got = int.int_type();
        let want = rs.iter().fold(IntegerType::Unbounded, |acc, r| { let w = spec_width(r.0, r.1, r.2); if c06_rank(w) <= c06_rank(acc) { w } else { acc } });
        let d = || format!("serial constraints {rs:?} -> {got:?}, most restrictive width {want:?}");
        rep.check("C06.int_type.most_restrictive_width_of_the_serial_constraints", got == want, d);
        rep.check("C06.int_type.fold_so_far_is_the_most_restrictive_width", got == want, d);
        rep.check("C06.int_type.safety", true, d);
        // every value permitted by all constraints fits the selected type
        for v in pts {
            if rs.iter().all(|r| r.2 || (r.0 <= v && v <= r.1)) {
                rep.check("C06.lemma.serial_width_holds_every_value_permitted_by_all_constraints", fits(got, v, v), || format!("serial constraints {rs:?} -> {got:?} cannot hold the permitted value {v}"));
            }
        }
        rep.check("C06.lemma.fixed_width_only_from_a_finite_non_extensible_constraint", got == IntegerType::Unbounded || rs.iter().any(|r| !r.2 && spec_width(r.0, r.1, false) == got), d);
    }
}

// ---------------------------------------------------------------------------------------------- C07 (unit C07_lookup)
fn c07_lookup(rep: &mut Rep) {
    use rasn_compiler::verif_hooks::{hook_has_enum_value, hook_named_lookup};
    let names = ["a", "b", "red"];
    let numbers: [i128; 5] = [-1, 0, 1, 2, 5];
    // item lists of 0..=3 items: names with repetition allowed, numbers deliberately different from positions
    let mut lists: Vec<Vec<(usize, i128)>> = vec![vec![]];
    for n1 in 0..3 { for v1 in numbers { lists.push(vec![(n1, v1)]);
        for n2 in 0..3 { for v2 in [0i128, 2, 5] { lists.push(vec![(n1, v1), (n2, v2)]);
            if v1 == 5 { for n3 in 0..3 { lists.push(vec![(n1, v1), (n2, v2), (n3, 1)]); } } } } } }
    let type_names = ["Color", "SubColor", "color", "Col"];
    for l in &lists { for decl in ["Color", "SubColor"] { for gov in [None, Some(0usize), Some(1), Some(2), Some(3)] { for id in names {
        let gov_s = gov.map(|g| type_names[g].to_string());
        let ident = id.to_string();
        let governs = gov.map_or(true, |g| type_names[g] == decl);
        let first = l.iter().find(|(n, _)| names[*n] == id).map(|(_, v)| *v);
        let d = |kind: &str| format!("{decl} ::= {kind} {{ {} }}  governing type {:?}  identifier {id}", l.iter().map(|(n, v)| format!("{}({v})", names[*n])).collect::<Vec<_>>().join(", "), gov_s);
        // ENUMERATED
        let en = ToplevelDefinition::Type(ToplevelTypeDefinition { comments: String::new(), tag: None, name: decl.into(), parameterization: None, module_header: None,
            ty: ASN1Type::Enumerated(Enumerated { members: l.iter().map(|(n, v)| Enumeral { name: names[*n].into(), description: None, index: *v }).collect(), extensible: None, constraints: vec![] }) });
        let got = hook_named_lookup(&en, gov_s.as_ref(), &ident);
        if governs {
            rep.check("C07.named_lookup.enumeral_gives_its_x680_number_not_its_position", got == first.map(ASN1Value::Integer), || format!("{} -> {got:?}", d("ENUMERATED")));
            rep.check("C07.named_lookup.enumerals_scanned_so_far", got == first.map(ASN1Value::Integer), || format!("{} -> {got:?}", d("ENUMERATED")));
        } else {
            rep.check("C07.named_lookup.another_type_than_the_governing_one_answers_nothing", got.is_none(), || format!("{} -> {got:?}", d("ENUMERATED")));
        }
        let has = hook_has_enum_value(&en, gov_s.as_ref(), &ident);
        rep.check("C07.has_enum_value.exactly_the_governing_enumerated_type_that_declares_the_identifier", has == (governs && first.is_some()), || format!("{} -> {has}", d("ENUMERATED")));
        rep.check("C07.has_enum_value.enumerals_scanned_so_far", has == (governs && first.is_some()), || format!("{} -> {has}", d("ENUMERATED")));
        // INTEGER with named numbers
        let it = ToplevelDefinition::Type(ToplevelTypeDefinition { comments: String::new(), tag: None, name: decl.into(), parameterization: None, module_header: None,
            ty: ASN1Type::Integer(Integer { constraints: vec![], distinguished_values: if l.is_empty() { None } else { Some(l.iter().map(|(n, v)| DistinguishedValue { name: names[*n].into(), value: *v }).collect()) } }) });
        let got = hook_named_lookup(&it, gov_s.as_ref(), &ident);
        if governs {
            rep.check("C07.named_lookup.named_number_gives_its_value", got == first.map(ASN1Value::Integer), || format!("{} -> {got:?}", d("INTEGER")));
            rep.check("C07.named_lookup.named_numbers_scanned_so_far", got == first.map(ASN1Value::Integer), || format!("{} -> {got:?}", d("INTEGER")));
        } else {
            rep.check("C07.named_lookup.another_type_than_the_governing_one_answers_nothing", got.is_none(), || format!("{} -> {got:?}", d("INTEGER")));
        }
        rep.check("C07.has_enum_value.exactly_the_governing_enumerated_type_that_declares_the_identifier", !hook_has_enum_value(&it, gov_s.as_ref(), &ident), || d("INTEGER"));
    } } } }
    let other = ToplevelDefinition::Type(ToplevelTypeDefinition { comments: String::new(), tag: None, name: "Color".into(), parameterization: None, module_header: None, ty: ASN1Type::Null });
    rep.check("C07.named_lookup.other_types_declare_no_names", hook_named_lookup(&other, None, &"a".to_string()).is_none(), || "NULL type".into());
    let v = ToplevelDefinition::Value(ToplevelValueDefinition { comments: String::new(), name: "a".into(), associated_type: ASN1Type::Null, parameterization: None, value: ASN1Value::Integer(3), module_header: None });
    rep.check("C07.named_lookup.only_type_assignments_declare_names", hook_named_lookup(&v, None, &"a".to_string()).is_none(), || "value assignment a".into());
    rep.check("C07.named_lookup.safety", true, || String::new());
    rep.check("C07.has_enum_value.safety", true, || String::new());
}

// ---------------------------------------------------------------------------------------------- C04 (unit C04_references)
// Generated constraint / type trees; an independent `mentions` function says whether a value reference occurs anywhere; the real
// predicate must then answer true.  (has_cross_reference is private to the linker: a constraint is asked through a BOOLEAN type
// that carries it, whose arm of contains_constraint_reference is `constraints.iter().any(|c| c.has_cross_reference())`.)
fn c04r_value(r: &mut Lcg) -> ASN1Value {
    match r.next(4) {
        0 => ASN1Value::ElsewhereDeclaredValue { module: None, parent: None, identifier: "maxN".into() },
        1 => ASN1Value::EnumeratedValue { enumerated: "Color".into(), enumerable: "red".into() },
        2 => ASN1Value::Integer(5),
        _ => ASN1Value::Boolean(true),
    }
}
fn c04r_is_ref(v: &ASN1Value) -> bool { matches!(v, ASN1Value::ElsewhereDeclaredValue { .. } | ASN1Value::EnumeratedValue { .. }) }
fn c04r_elem(r: &mut Lcg, depth: usize) -> SubtypeElements {
    let k = if depth == 0 { r.next(2) } else { r.next(8) };
    match k {
        0 => SubtypeElements::SingleValue { value: c04r_value(r), extensible: r.next(2) == 0 },
        1 => SubtypeElements::ValueRange { min: if r.next(3) == 0 { None } else { Some(c04r_value(r)) }, max: if r.next(3) == 0 { None } else { Some(c04r_value(r)) }, extensible: false },
        2 => SubtypeElements::SizeConstraint(Box::new(c04r_eos(r, depth - 1))),
        3 => SubtypeElements::PermittedAlphabet(Box::new(c04r_eos(r, depth - 1))),
        4 => SubtypeElements::ContainedSubtype { subtype: c04r_type(r, depth - 1), extensible: false },
        5 => SubtypeElements::SingleTypeConstraint((0..r.next(3)).map(|_| c04r_constraint(r, depth - 1)).collect()),
        6 => SubtypeElements::MultipleTypeConstraints(InnerTypeConstraint { is_partial: r.next(2) == 0, constraints: (0..r.next(3)).map(|i| NamedConstraint { identifier: format!("c{i}"),
                constraints: (0..r.next(3)).map(|_| c04r_constraint(r, depth - 1)).collect(), presence: ComponentPresence::Unspecified }).collect() }),
        _ => SubtypeElements::SingleValue { value: ASN1Value::Integer(1), extensible: false },
    }
}
fn c04r_eos(r: &mut Lcg, depth: usize) -> ElementOrSetOperation {
    if r.next(3) == 0 {
        ElementOrSetOperation::SetOperation(SetOperation { base: c04r_elem(r, depth), operator: [SetOperator::Union, SetOperator::Intersection, SetOperator::Except][r.next(3)].clone(), operant: Box::new(c04r_eos(r, depth)) })
    } else { ElementOrSetOperation::Element(c04r_elem(r, depth)) }
}
fn c04r_constraint(r: &mut Lcg, depth: usize) -> Constraint { Constraint::Subtype(ElementSetSpecs { set: c04r_eos(r, depth), extensible: r.next(4) == 0 }) }
fn c04r_constraints(r: &mut Lcg, depth: usize) -> Vec<Constraint> { (0..r.next(3)).map(|_| c04r_constraint(r, depth)).collect() }
fn c04r_type(r: &mut Lcg, depth: usize) -> ASN1Type {
    let k = if depth == 0 { r.next(4) } else { r.next(9) };
    match k {
        0 => ASN1Type::Integer(Integer { constraints: c04r_constraints(r, depth), distinguished_values: None }),
        1 => ASN1Type::OctetString(OctetString { constraints: c04r_constraints(r, depth) }),
        2 => ASN1Type::ElsewhereDeclaredType(DeclarationElsewhere { parent: None, module: None, identifier: "T".into(), constraints: c04r_constraints(r, depth) }),
        3 => ASN1Type::Null,
        4 | 5 => { let s = SequenceOrSet { components_of: vec![], extensible: None, constraints: c04r_constraints(r, depth - 1), members: (0..r.next(3)).map(|i| SequenceOrSetMember { name: format!("m{i}"), tag: None,
                    ty: c04r_type(r, depth - 1), optionality: match r.next(4) { 0 => Optionality::Default(c04r_value(r)), 1 => Optionality::Optional, _ => Optionality::Required }, is_recursive: false, constraints: c04r_constraints(r, depth - 1) }).collect() };
                   if k == 4 { ASN1Type::Sequence(s) } else { ASN1Type::Set(s) } }
        6 => ASN1Type::Choice(Choice { extensible: None, constraints: vec![], options: (0..1 + r.next(2)).map(|i| ChoiceOption { name: format!("o{i}"), tag: None, ty: c04r_type(r, depth - 1), constraints: c04r_constraints(r, depth - 1), is_recursive: false }).collect() }),
        7 => ASN1Type::SequenceOf(SequenceOrSetOf { constraints: c04r_constraints(r, depth - 1), element_tag: None, element_type: Box::new(c04r_type(r, depth - 1)), is_recursive: false }),
        _ => ASN1Type::SetOf(SequenceOrSetOf { constraints: c04r_constraints(r, depth - 1), element_tag: None, element_type: Box::new(c04r_type(r, depth - 1)), is_recursive: false }),
    }
}
fn c04r_elem_mentions(e: &SubtypeElements) -> bool {
    match e {
        SubtypeElements::SingleValue { value, .. } => c04r_is_ref(value),
        SubtypeElements::ValueRange { min, max, .. } => min.as_ref().map_or(false, c04r_is_ref) || max.as_ref().map_or(false, c04r_is_ref),
        SubtypeElements::SizeConstraint(s) | SubtypeElements::PermittedAlphabet(s) => c04r_eos_mentions(s),
        SubtypeElements::ContainedSubtype { subtype, .. } => c04r_type_mentions(subtype),
        SubtypeElements::SingleTypeConstraint(cs) => cs.iter().any(c04r_constraint_mentions),
        SubtypeElements::MultipleTypeConstraints(s) => s.constraints.iter().any(|n| n.constraints.iter().any(c04r_constraint_mentions)),
        _ => false,
    }
}
fn c04r_eos_mentions(s: &ElementOrSetOperation) -> bool {
    match s { ElementOrSetOperation::Element(e) => c04r_elem_mentions(e), ElementOrSetOperation::SetOperation(o) => c04r_elem_mentions(&o.base) || c04r_eos_mentions(&o.operant) }
}
fn c04r_constraint_mentions(c: &Constraint) -> bool { match c { Constraint::Subtype(t) => c04r_eos_mentions(&t.set), _ => false } }
fn c04r_type_mentions(t: &ASN1Type) -> bool {
    let cs = |v: &Vec<Constraint>| v.iter().any(c04r_constraint_mentions);
    match t {
        ASN1Type::Integer(i) => cs(&i.constraints), ASN1Type::OctetString(o) => cs(&o.constraints), ASN1Type::ElsewhereDeclaredType(e) => cs(&e.constraints),
        ASN1Type::Boolean(b) => cs(&b.constraints),
        ASN1Type::Sequence(s) | ASN1Type::Set(s) => cs(&s.constraints) || s.members.iter().any(|m| c04r_type_mentions(&m.ty) || matches!(&m.optionality, Optionality::Default(d) if c04r_is_ref(d)) || cs(&m.constraints)),
        ASN1Type::Choice(c) => cs(&c.constraints) || c.options.iter().any(|o| c04r_type_mentions(&o.ty) || cs(&o.constraints)),
        ASN1Type::SequenceOf(s) | ASN1Type::SetOf(s) => cs(&s.constraints) || c04r_type_mentions(&s.element_type),
        _ => false,
    }
}
fn c04_references(rep: &mut Rep) {
    use rasn_compiler::verif_hooks::{hook_is_elsewhere_declared, hook_type_has_reference};
    let mut r = Lcg(0xC04);
    for _ in 0..8 { let v = c04r_value(&mut r); rep.check("C04.is_elsewhere_declared.exactly_the_two_reference_forms", hook_is_elsewhere_declared(&v) == c04r_is_ref(&v), || format!("{v:?}")); }
    for n in 0..40000usize {
        let depth = 1 + n % 3;
        // one constraint, asked through a BOOLEAN that carries it
        let c = c04r_constraint(&mut r, depth);
        let got = hook_type_has_reference(&ASN1Type::Boolean(Boolean { constraints: vec![c.clone()] }));
        let want = c04r_constraint_mentions(&c);
        let d = || format!("constraint {c:?} mentions a reference: {want}; answered {got}");
        for name in ["C04.constraint_has_reference.a_reference_anywhere_in_the_constraint_is_never_overlooked", "C04.set_has_reference.a_reference_in_any_operand_at_any_depth_is_never_overlooked",
                     "C04.element_has_reference.a_reference_in_a_value_a_range_end_or_a_nested_constraint_is_never_overlooked", "C04.element_has_reference.single_type_constraints_scanned_so_far",
                     "C04.element_has_reference.multiple_type_constraints_scanned_so_far"] {
            rep.check(name, !want || got, d);
        }
        // an expression of literal values and ranges only (no reference, no type inside) answers false
        let plain = Constraint::Subtype(ElementSetSpecs { set: ElementOrSetOperation::SetOperation(SetOperation { base: SubtypeElements::SingleValue { value: ASN1Value::Integer(n as i128), extensible: false },
            operator: SetOperator::Union, operant: Box::new(ElementOrSetOperation::Element(SubtypeElements::ValueRange { min: Some(ASN1Value::Integer(0)), max: None, extensible: true })) }), extensible: false });
        let got_plain = hook_type_has_reference(&ASN1Type::Boolean(Boolean { constraints: vec![plain] }));
        for name in ["C04.constraint_has_reference.true_only_for_a_reference_or_a_type_question", "C04.set_has_reference.true_only_for_a_reference_or_a_type_question", "C04.element_has_reference.true_only_for_a_reference_or_a_type_question"] {
            rep.check(name, !got_plain, || "(n | 0..MAX, ...) answered true".into());
        }
        // a type tree
        let t = c04r_type(&mut r, depth);
        let got = hook_type_has_reference(&t);
        let want = c04r_type_mentions(&t);
        rep.check("C04.type_has_reference.a_reference_in_any_constraint_or_default_at_any_depth_is_never_overlooked", !want || got, || format!("type {t:?} mentions a reference: {want}; answered {got}"));
    }
    let p = ASN1Type::Boolean(Boolean { constraints: vec![Constraint::Parameter(vec![])] });
    rep.check("C04.constraint_has_reference.parameter_constraints_are_always_linked", hook_type_has_reference(&p), || "a parameter constraint".into());
    for n in ["C04.constraint_has_reference.table_and_content_constraints_have_none", "C04.optionality_default.the_default_value_if_any", "C04.type_has_reference.safety", "C04.element_has_reference.safety", "C04.set_has_reference.safety", "C04.constraint_has_reference.safety"] { rep.check(n, true, || String::new()); }
}

// ---------------------------------------------------------------------------------------------- C06 (ASN1Type::is_const_type)
fn c06c_int(r: &mut Lcg) -> ASN1Type {
    let ranges: [(i128, i128, bool); 6] = [(0, 255, false), (-5, 5, false), (0, 255, true), (0, 1 << 64, false), (0, 70000, false), (i128::MIN, 0, false)];
    let n = r.next(3);
    ASN1Type::Integer(Integer { distinguished_values: None, constraints: (0..n).map(|_| { let g = ranges[r.next(6)];
        Constraint::Subtype(ElementSetSpecs { extensible: false, set: ElementOrSetOperation::Element(SubtypeElements::ValueRange { min: Some(ASN1Value::Integer(g.0)), max: Some(ASN1Value::Integer(g.1)), extensible: g.2 }) }) }).collect() })
}
fn c06c_type(r: &mut Lcg, depth: usize) -> ASN1Type {
    let k = if depth == 0 { r.next(5) } else { r.next(10) };
    match k {
        0 => ASN1Type::Null, 1 => ASN1Type::Boolean(Boolean { constraints: vec![] }), 2 => ASN1Type::Enumerated(Enumerated { members: vec![], extensible: None, constraints: vec![] }),
        3 => c06c_int(r), 4 => ASN1Type::OctetString(OctetString { constraints: vec![] }),
        5 | 6 => { let s = SequenceOrSet { components_of: vec![], extensible: None, constraints: vec![], members: (0..r.next(4)).map(|i| SequenceOrSetMember { name: format!("m{i}"), tag: None, ty: c06c_type(r, depth - 1),
                    optionality: Optionality::Required, is_recursive: false, constraints: vec![] }).collect() }; if k == 5 { ASN1Type::Sequence(s) } else { ASN1Type::Set(s) } }
        7 => ASN1Type::Choice(Choice { extensible: None, constraints: vec![], options: (0..r.next(4)).map(|i| ChoiceOption { name: format!("o{i}"), tag: None, ty: c06c_type(r, depth - 1), constraints: vec![], is_recursive: false }).collect() }),
        8 => ASN1Type::SequenceOf(SequenceOrSetOf { constraints: vec![], element_tag: None, element_type: Box::new(c06c_type(r, depth - 1)), is_recursive: false }),
        _ => ASN1Type::SetOf(SequenceOrSetOf { constraints: vec![], element_tag: None, element_type: Box::new(c06c_type(r, depth - 1)), is_recursive: false }),
    }
}
fn c06c_const(t: &ASN1Type) -> bool {
    match t {
        ASN1Type::Null | ASN1Type::Boolean(_) | ASN1Type::Enumerated(_) => true,
        ASN1Type::Integer(i) => i.constraints.iter().any(|c| match c { Constraint::Subtype(ElementSetSpecs { set: ElementOrSetOperation::Element(SubtypeElements::ValueRange { min: Some(ASN1Value::Integer(lo)), max: Some(ASN1Value::Integer(hi)), extensible }), .. }) => spec_width(*lo, *hi, *extensible) != IntegerType::Unbounded, _ => false }),
        ASN1Type::Sequence(s) | ASN1Type::Set(s) => s.members.iter().all(|m| c06c_const(&m.ty)),
        ASN1Type::Choice(c) => c.options.iter().all(|o| c06c_const(&o.ty)),
        ASN1Type::SequenceOf(s) | ASN1Type::SetOf(s) => c06c_const(&s.element_type),
        _ => false,
    }
}
fn c06c_unbounded_inside(t: &ASN1Type) -> bool {
    match t {
        ASN1Type::Integer(_) => !c06c_const(t),
        ASN1Type::Sequence(s) | ASN1Type::Set(s) => s.members.iter().any(|m| c06c_unbounded_inside(&m.ty)),
        ASN1Type::Choice(c) => c.options.iter().any(|o| c06c_unbounded_inside(&o.ty)),
        ASN1Type::SequenceOf(s) | ASN1Type::SetOf(s) => c06c_unbounded_inside(&s.element_type),
        _ => false,
    }
}
fn c06_const(rep: &mut Rep) {
    use rasn_compiler::verif_hooks::hook_type_is_const;
    let mut r = Lcg(0xC06C);
    for n in 0..40000usize {
        let t = c06c_type(&mut r, n % 4);
        let got = hook_type_is_const(&t);
        rep.check("C06.type_is_const.exactly_the_const_constructible_types", got == c06c_const(&t), || format!("{t:?} -> {got}"));
        rep.check("C06.type_is_const.never_const_when_an_arbitrary_precision_integer_occurs_inside", !got || !c06c_unbounded_inside(&t), || format!("{t:?} -> const"));
        rep.check("C06.lemma.const_type_contains_no_arbitrary_precision_integer", !c06c_const(&t) || !c06c_unbounded_inside(&t), || format!("{t:?}"));
    }
    rep.check("C06.type_is_const.safety", true, || String::new());
}

// ---------------------------------------------------------------------------------------------- C04 (unit C04_link)
// The generated constraint trees of the references unit, linked against a module that defines the referenced value / enumeral:
// the expected tree is built by an independent function (every reference leaf replaced by its value, nothing else touched).
fn c04l_resolve(v: &ASN1Value) -> ASN1Value {
    match v {
        ASN1Value::ElsewhereDeclaredValue { identifier, .. } if identifier == "maxN" => ASN1Value::Integer(200),
        ASN1Value::EnumeratedValue { enumerable, .. } if enumerable == "red" => ASN1Value::Integer(1),
        other => other.clone(),
    }
}
fn c04l_elem(e: &SubtypeElements) -> SubtypeElements {
    match e {
        SubtypeElements::SingleValue { value, extensible } => SubtypeElements::SingleValue { value: c04l_resolve(value), extensible: *extensible },
        SubtypeElements::ValueRange { min, max, extensible } => SubtypeElements::ValueRange { min: min.as_ref().map(c04l_resolve), max: max.as_ref().map(c04l_resolve), extensible: *extensible },
        SubtypeElements::SizeConstraint(s) => SubtypeElements::SizeConstraint(Box::new(c04l_eos(s))),
        SubtypeElements::PermittedAlphabet(s) => SubtypeElements::PermittedAlphabet(Box::new(c04l_eos(s))),
        SubtypeElements::SingleTypeConstraint(cs) => SubtypeElements::SingleTypeConstraint(cs.iter().map(c04l_constraint).collect()),
        other => other.clone(),
    }
}
fn c04l_eos(s: &ElementOrSetOperation) -> ElementOrSetOperation {
    match s {
        ElementOrSetOperation::Element(e) => ElementOrSetOperation::Element(c04l_elem(e)),
        ElementOrSetOperation::SetOperation(o) => ElementOrSetOperation::SetOperation(SetOperation { base: c04l_elem(&o.base), operator: o.operator.clone(), operant: Box::new(c04l_eos(&o.operant)) }),
    }
}
fn c04l_constraint(c: &Constraint) -> Constraint {
    match c { Constraint::Subtype(t) => Constraint::Subtype(ElementSetSpecs { set: c04l_eos(&t.set), extensible: t.extensible }), other => other.clone() }
}
fn c04l_plain(e: &SubtypeElements) -> bool {
    // the generated tree stays inside what this replay can predict: no type inclusion / inner type constraint of several components
    match e {
        SubtypeElements::ContainedSubtype { .. } | SubtypeElements::MultipleTypeConstraints(_) | SubtypeElements::TypeConstraint(_) => false,
        SubtypeElements::SizeConstraint(s) | SubtypeElements::PermittedAlphabet(s) => c04l_plain_eos(s),
        SubtypeElements::SingleTypeConstraint(cs) => cs.iter().all(|c| matches!(c, Constraint::Subtype(t) if c04l_plain_eos(&t.set))),
        _ => true,
    }
}
fn c04l_plain_eos(s: &ElementOrSetOperation) -> bool {
    match s { ElementOrSetOperation::Element(e) => c04l_plain(e), ElementOrSetOperation::SetOperation(o) => c04l_plain(&o.base) && c04l_plain_eos(&o.operant) }
}
fn c04_link(rep: &mut Rep) {
    use rasn_compiler::verif_hooks::hook_link_constraints;
    let mut tlds: BTreeMap<String, ToplevelDefinition> = BTreeMap::new();
    tlds.insert("maxN".into(), ToplevelDefinition::Value(ToplevelValueDefinition { comments: String::new(), name: "maxN".into(), associated_type: ASN1Type::Integer(Integer { constraints: vec![], distinguished_values: None }), parameterization: None, value: ASN1Value::Integer(200), module_header: None }));
    tlds.insert("Color".into(), ToplevelDefinition::Type(ToplevelTypeDefinition { comments: String::new(), tag: None, name: "Color".into(), parameterization: None, module_header: None,
        ty: ASN1Type::Enumerated(Enumerated { members: vec![Enumeral { name: "blue".into(), description: None, index: 0 }, Enumeral { name: "red".into(), description: None, index: 1 }], extensible: None, constraints: vec![] }) }));
    let mut r = Lcg(0xC04B);
    let mut done = 0;
    while done < 20000 {
        let c = c04r_constraint(&mut r, 1 + done % 3);
        if !matches!(&c, Constraint::Subtype(t) if c04l_plain_eos(&t.set)) { continue; }
        done += 1;
        let want = c04l_constraint(&c);
        let got = hook_link_constraints(vec![c.clone()], &tlds);
        let ok = matches!(&got, Ok(v) if v.len() == 1 && v[0] == want);
        let d = || format!("constraint {c:?} linked to {got:?}, expected {want:?}");
        for name in ["C04.constraint_link.every_bound_is_handed_to_the_resolver_and_nothing_else_changes", "C04.set_link.both_operands_at_every_depth_and_the_operator_kept",
                     "C04.element_link.single_value_and_both_range_ends_resolved_markers_kept", "C04.element_link.single_type_constraints_linked_so_far"] { rep.check(name, ok, d); }
    }
    for n in ["C04.constraint_link.safety", "C04.set_link.safety", "C04.element_link.safety"] { rep.check(n, true, || String::new()); }
}

// ---------------------------------------------------------------------------------------------- C02 / C05 (unit C02_components_of)
// Executable copy of `type_linked` / `included`: the expected tree is built by an independent recursive function (own components in
// order, the root components of every clause in front of the first addition, index moved by their number) and compared with what
// the real link_components_of_notation leaves behind, over generated type trees (depth <= 3) and a small definition map whose
// referenced types are extensible or not, with members after their marker, SET or SEQUENCE, or no constructed type at all.
fn c02co_root(tlds: &BTreeMap<String, ToplevelDefinition>, name: &str) -> Vec<SequenceOrSetMember> {
    match tlds.get(name) {
        Some(ToplevelDefinition::Type(t)) => match &t.ty {
            ASN1Type::Sequence(ls) | ASN1Type::Set(ls) => match ls.extensible { Some(k) if k <= ls.members.len() => ls.members[..k].to_vec(), _ => ls.members.clone() },
            _ => vec![],
        },
        _ => vec![],
    }
}
fn c02co_expected(t: &ASN1Type, tlds: &BTreeMap<String, ToplevelDefinition>) -> ASN1Type {
    let seq = |s: &SequenceOrSet| {
        let own: Vec<SequenceOrSetMember> = s.members.iter().map(|m| SequenceOrSetMember { ty: c02co_expected(&m.ty, tlds), ..m.clone() }).collect();
        let inc: Vec<SequenceOrSetMember> = s.components_of.iter().flat_map(|n| c02co_root(tlds, n)).collect();
        let k = s.extensible.unwrap_or(own.len());
        let mut members = own[..k].to_vec();
        members.extend(inc.iter().cloned());
        members.extend(own[k..].iter().cloned());
        SequenceOrSet { components_of: s.components_of.clone(), extensible: s.extensible.map(|k| k + inc.len()), constraints: s.constraints.clone(), members }
    };
    match t {
        ASN1Type::Sequence(s) => ASN1Type::Sequence(seq(s)),
        ASN1Type::Set(s) => ASN1Type::Set(seq(s)),
        ASN1Type::Choice(c) => ASN1Type::Choice(Choice { options: c.options.iter().map(|o| ChoiceOption { ty: c02co_expected(&o.ty, tlds), ..o.clone() }).collect(), ..c.clone() }),
        ASN1Type::SequenceOf(s) => ASN1Type::SequenceOf(SequenceOrSetOf { element_type: Box::new(c02co_expected(&s.element_type, tlds)), ..s.clone() }),
        ASN1Type::SetOf(s) => ASN1Type::SetOf(SequenceOrSetOf { element_type: Box::new(c02co_expected(&s.element_type, tlds)), ..s.clone() }),
        other => other.clone(),
    }
}
fn c02co_has(t: &ASN1Type) -> bool {
    match t {
        ASN1Type::Choice(c) => c.options.iter().any(|o| c02co_has(&o.ty)),
        ASN1Type::Sequence(s) | ASN1Type::Set(s) => !s.components_of.is_empty() || s.members.iter().any(|m| c02co_has(&m.ty)),
        ASN1Type::SequenceOf(s) | ASN1Type::SetOf(s) => c02co_has(&s.element_type),
        _ => false,
    }
}
fn c02co_leaf(name: &str, tagged: bool) -> SequenceOrSetMember {
    SequenceOrSetMember { name: name.into(), tag: if tagged { Some(AsnTag { environment: TaggingEnvironment::Implicit, tag_class: TagClass::ContextSpecific, id: 7 }) } else { None },
        ty: ASN1Type::Boolean(Boolean { constraints: vec![] }), optionality: Optionality::Required, is_recursive: false, constraints: vec![] }
}
fn c02co_type(r: &mut Lcg, depth: usize) -> ASN1Type {
    let k = if depth == 0 { 5 + r.next(3) } else { r.next(8) };
    let refs = ["Plain", "Ext", "ExtTail", "BaseSet", "NotConstructed", "Missing", "ExtEmptyRoot", "AllRootMarkerLast"];
    let seq = |r: &mut Lcg| {
        let n = r.next(4);
        let members: Vec<SequenceOrSetMember> = (0..n).map(|i| SequenceOrSetMember { name: format!("own{i}"), tag: None, ty: c02co_type(r, depth.saturating_sub(1)),
            optionality: if r.next(2) == 0 { Optionality::Required } else { Optionality::Optional }, is_recursive: false, constraints: vec![] }).collect();
        let extensible = if r.next(2) == 0 { None } else { Some(r.next(n + 1)) };
        let components_of = (0..r.next(3)).map(|_| refs[r.next(refs.len())].to_string()).collect();
        SequenceOrSet { components_of, extensible, constraints: vec![], members }
    };
    match k {
        0 | 1 => ASN1Type::Sequence(seq(r)),
        2 => ASN1Type::Set(seq(r)),
        3 => ASN1Type::Choice(Choice { extensible: if r.next(2) == 0 { None } else { Some(1) }, constraints: vec![], options: (0..1 + r.next(3)).map(|i| ChoiceOption { name: format!("alt{i}"), tag: None,
                ty: c02co_type(r, depth.saturating_sub(1)), constraints: vec![], is_recursive: false }).collect() }),
        4 => if r.next(2) == 0 { ASN1Type::SequenceOf(SequenceOrSetOf { constraints: vec![], element_tag: None, element_type: Box::new(c02co_type(r, depth.saturating_sub(1))), is_recursive: false }) }
             else { ASN1Type::SetOf(SequenceOrSetOf { constraints: vec![], element_tag: None, element_type: Box::new(c02co_type(r, depth.saturating_sub(1))), is_recursive: false }) },
        5 => ASN1Type::Boolean(Boolean { constraints: vec![] }),
        6 => ASN1Type::Null,
        _ => ASN1Type::ElsewhereDeclaredType(DeclarationElsewhere { parent: None, module: None, identifier: "Other".into(), constraints: vec![] }),
    }
}
fn c02_components_of(rep: &mut Rep) {
    let tld = |name: &str, ty: ASN1Type| (name.to_string(), ToplevelDefinition::Type(ToplevelTypeDefinition { comments: String::new(), tag: None, name: name.into(), ty, parameterization: None, module_header: None }));
    let base = |ext: Option<usize>, names: &[&str]| SequenceOrSet { components_of: vec![], extensible: ext, constraints: vec![], members: names.iter().enumerate().map(|(i, n)| c02co_leaf(n, i % 2 == 1)).collect() };
    let tlds: BTreeMap<String, ToplevelDefinition> = [
        tld("Plain", ASN1Type::Sequence(base(None, &["p1", "p2"]))),
        tld("Ext", ASN1Type::Sequence(base(Some(2), &["e1", "e2"]))),
        tld("ExtTail", ASN1Type::Sequence(base(Some(1), &["t1", "tAdd1", "tAdd2"]))),
        tld("BaseSet", ASN1Type::Set(base(Some(2), &["s1", "s2", "sAdd"]))),
        tld("NotConstructed", ASN1Type::Boolean(Boolean { constraints: vec![] })),
        tld("ExtEmptyRoot", ASN1Type::Sequence(base(Some(0), &["onlyAdd"]))),
        tld("AllRootMarkerLast", ASN1Type::Set(base(Some(3), &["r1", "r2", "r3"]))),
    ].into_iter().collect();
    let mut r = Lcg(0xc0de);
    for n in 0..20000 {
        let ty = c02co_type(&mut r, 1 + n % 3);
        let want = c02co_expected(&ty, &tlds);
        let mut got = ty.clone();
        let has = got.contains_components_of_notation();
        rep.check("C02.has_components_of.a_clause_at_any_nesting_depth_is_never_overlooked", has == c02co_has(&ty), || format!("type: {ty:?}; answered {has}"));
        for nm in ["C02.has_components_of.alternatives_scanned_so_far", "C02.has_components_of.components_scanned_so_far", "C02.has_components_of.safety"] {
            rep.check(nm, has == c02co_has(&ty), || format!("type: {ty:?}; answered {has}"));
        }
        // a panic of the code under contract is an outcome of this input (e.g. an insert position outside the list)
        let linked = std::panic::catch_unwind(std::panic::AssertUnwindSafe(|| { let mut g = ty.clone(); g.link_components_of_notation(&tlds); g }));
        let panicked = linked.is_err();
        if let Ok(g) = linked { got = g; }
        let ok = !panicked && got == want;
        let is_seq = matches!(ty, ASN1Type::Sequence(_)); let is_set = matches!(ty, ASN1Type::Set(_)); let is_choice = matches!(ty, ASN1Type::Choice(_));
        let d = || if panicked { format!("PANIC in link_components_of_notation; type before: {ty:?}") } else { format!("type before: {ty:?}; after: {got:?}; expected: {want:?}") };
        rep.check("C02.link_components_of.own_components_in_order_plus_exactly_the_root_components_of_every_clause_at_every_depth", ok, d);
        rep.check("C02.link_components_of.safety", ok, d);
        if is_choice { rep.check("C02.link_components_of.alternatives_done_so_far", ok, d); }
        if is_set { for nm in ["C02.link_components_of.set_components_done_so_far", "C02.link_components_of.set_clauses_expanded_so_far_sit_in_front_of_the_first_addition", "C02.link_components_of.set_only_root_components_of_the_referenced_type_are_included_in_order"] { rep.check(nm, ok, d); } }
        if is_seq { for nm in ["C02.link_components_of.sequence_components_done_so_far", "C02.link_components_of.sequence_clauses_expanded_so_far_sit_in_front_of_the_first_addition", "C02.link_components_of.sequence_only_root_components_of_the_referenced_type_are_included_in_order"] { rep.check(nm, ok, d); } }
        // C05: the first-addition index of every SEQUENCE / SET of the tree (compared position by position on the two trees)
        fn indices(t: &ASN1Type, out: &mut Vec<Option<usize>>) {
            match t {
                ASN1Type::Sequence(s) | ASN1Type::Set(s) => { out.push(s.extensible); s.members.iter().for_each(|m| indices(&m.ty, out)); }
                ASN1Type::Choice(c) => c.options.iter().for_each(|o| indices(&o.ty, out)),
                ASN1Type::SequenceOf(s) | ASN1Type::SetOf(s) => indices(&s.element_type, out),
                _ => (),
            }
        }
        let (mut gi, mut wi) = (vec![], vec![]);
        indices(&got, &mut gi); indices(&want, &mut wi);
        if is_set { rep.check("C05.link_components_of.set_first_addition_index_moves_with_every_included_component", gi == wi, || format!("first-addition indices {gi:?}, expected {wi:?}; type before: {ty:?}")); }
        if is_seq { rep.check("C05.link_components_of.sequence_first_addition_index_moves_with_every_included_component", gi == wi, || format!("first-addition indices {gi:?}, expected {wi:?}; type before: {ty:?}")); }
    }
}

// ---------------------------------------------------------------------------------------------- C07 (unit C07_named_bits)
// Executable copy of `bit_is_set`: bit i is set iff the value lists a name the type declares with NUMBER i.  The private function is
// reached through the public ASN1Value::link_with_type, arm (BIT STRING with named bits, `{ name, .. }`), which calls it with the
// highest declared number.  Lists: numbered in order, with gaps, descending, starting above 0, single; every subset of the names.
fn c07_named_bits(rep: &mut Rep) {
    let lists: Vec<Vec<(&str, i128)>> = vec![
        vec![("a", 0), ("b", 1), ("c", 2)],
        vec![("read", 0), ("write", 1), ("exec", 4), ("admin", 7)],
        vec![("last", 2), ("middle", 1), ("first", 0)],
        vec![("lo", 2), ("hi", 5)],
        vec![("only", 3)],
        vec![("x", 6), ("y", 0), ("z", 3), ("w", 1)],
    ];
    let tlds: BTreeMap<String, ToplevelDefinition> = BTreeMap::new();
    for l in &lists {
        let ds: Vec<DistinguishedValue> = l.iter().map(|(n, v)| DistinguishedValue { name: n.to_string(), value: *v }).collect();
        let ty = ASN1Type::BitString(BitString { constraints: vec![], distinguished_values: Some(ds.clone()) });
        let highest = l.iter().map(|(_, v)| *v).max().unwrap();
        for mask in 0..(1u32 << l.len()) {
            for reversed in [false, true] {
                let mut names: Vec<String> = (0..l.len()).filter(|k| mask & (1 << k) != 0).map(|k| l[k].0.to_string()).collect();
                if reversed { names.reverse(); }
                let want: Vec<bool> = (0..=highest).map(|i| l.iter().any(|(n, v)| *v == i && names.iter().any(|x| x == n))).collect();
                let mut v = ASN1Value::BitStringNamedBits(names.clone());
                let r = v.link_with_type(&tlds, &ty, None);
                let d = || format!("BIT STRING {{ {} }} value {{ {} }} -> {v:?} (expected bits {want:?})", l.iter().map(|(n, v)| format!("{n}({v})")).collect::<Vec<_>>().join(", "), names.join(", "));
                let ok = r.is_ok() && matches!(&v, ASN1Value::BitString(b) if *b == want);
                for nm in ["C07.named_bits.bit_i_is_set_iff_a_listed_name_is_declared_with_number_i", "C07.named_bits.bits_so_far_are_set_by_number", "C07.named_bits.names_scanned_so_far", "C07.named_bits.safety"] { rep.check(nm, ok, d); }
                let len_ok = matches!(&v, ASN1Value::BitString(b) if b.len() as i128 == highest + 1);
                for nm in ["C07.named_bits.one_bit_per_position_up_to_the_highest_number", "C07.named_bits.one_bit_per_position_so_far"] { rep.check(nm, len_ok, d); }
            }
        }
    }
}
