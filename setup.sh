#!/bin/sh
# Offline setup: build the native replay crate and warm the Kani build of /repo (both rebuilt incrementally by every check).
set -e
cd /verif
mkdir -p build/verus build/replays evidence
export CARGO_NET_OFFLINE=true LIBRASN_VERIF_DIR=/verif
RUSTFLAGS="--cfg librasn_compiler_verif" CARGO_TARGET_DIR=/verif/build/replay-target cargo build --offline --manifest-path replay/Cargo.toml
(cd /repo/rasn-compiler && RUSTFLAGS="--cfg librasn_compiler_verif" CARGO_TARGET_DIR=/verif/build/kani-target cargo kani --lib --harness k_layout_sentinel_scalars >/dev/null 2>&1 || true)
# warm verus (first run loads vstd)
printf 'use vstd::prelude::*;\nverus!{ proof fn warm() ensures true {} }\nfn main(){}\n' > build/verus/_warm.rs
(cd build/verus && verus _warm.rs >/dev/null 2>&1 || true)
echo setup done
