// Included into validator/linking/utils.rs as `pub(crate) mod verif_hook`.
use super::*;
use crate::verif_hooks::*;

/// C07 unit 2 — `octet_string_to_bit_string` / `is_bit_set(b, 128, ·)` per byte, all 256 values:
/// exactly 8 bits are produced and bit k is `(b >> (7-k)) & 1` (MSB first); the reverse conversion
/// gives the byte back.
pub fn contract_octet_to_bits<C: Ctx>(cx: &mut C) {
    let b = cx.any_u8();
    let bits = octet_string_to_bit_string(&[b]);
    vob!(cx, "C07.octet_to_bits.eight_bits_per_octet", bits.len() == 8);
    if bits.len() == 8 {
        let mut k = 0;
        let mut ok = true;
        while k < 8 {
            ok = ok && bits[k] == ((b >> (7 - k)) & 1 == 1);
            k += 1;
        }
        vob!(cx, "C07.octet_to_bits.msb_first", ok);
        let back = bit_string_to_octet_string(&bits);
        vob!(cx, "C07.octet_to_bits.round_trip", match back { Ok(v) => v.len() == 1 && v[0] == b, Err(_) => false });
    }
}

/// C07 unit 3 — `bit_string_to_octet_string` on concrete lengths with symbolic contents:
/// Err exactly when the length is not a multiple of 8; otherwise byte j = sum bit[8j+i]*2^(7-i).
/// bounded: lengths listed in BIT_LENGTHS.
const BIT_LENGTHS_QUICK: &[usize] = &[0, 8, 9];
const BIT_LENGTHS_THOROUGH: &[usize] = &[1, 7, 15, 16, 17, 24];
pub fn contract_bits_to_octets<C: Ctx>(cx: &mut C) { contract_bits_to_octets_lens(cx, BIT_LENGTHS_QUICK) }
pub fn contract_bits_to_octets_long<C: Ctx>(cx: &mut C) { contract_bits_to_octets_lens(cx, BIT_LENGTHS_THOROUGH) }
fn contract_bits_to_octets_lens<C: Ctx>(cx: &mut C, lens: &[usize]) {
    let mut li = 0;
    while li < lens.len() {
        let len = lens[li];
        cx.note("len", len);
        let mut store = [false; 24];
        let mut i = 0;
        while i < len { store[i] = cx.any_bool(); i += 1; }
        let bits: &[bool] = &store[..len];
        let r = bit_string_to_octet_string(bits);
        vob!(cx, "C07.bits_to_octets.err_iff_not_multiple_of_8", r.is_err() == (len % 8 != 0));
        if let Ok(oct) = r {
            vob!(cx, "C07.bits_to_octets.one_octet_per_8_bits", oct.len() == len / 8);
            let mut j = 0;
            let mut ok = oct.len() == len / 8;
            while ok && j < len / 8 {
                let mut want: u8 = 0;
                let mut i = 0;
                while i < 8 { if bits[8 * j + i] { want |= 1 << (7 - i); } i += 1; }
                ok = oct[j] == want;
                j += 1;
            }
            vob!(cx, "C07.bits_to_octets.msb_first_value", ok);
            if ok {
                let back = octet_string_to_bit_string(&oct);
                vob!(cx, "C07.bits_to_octets.round_trip", back.as_slice() == bits);
            }
        }
        li += 1;
    }
}

#[cfg(kani)]
mod kani_harness {
    use super::*;
    #[kani::proof] #[kani::unwind(10)] fn k_c07_octet_to_bits() { contract_octet_to_bits(&mut KaniCtx) }
    #[kani::proof] #[kani::unwind(11)] fn k_c07_bits_to_octets() { contract_bits_to_octets(&mut KaniCtx) }
    #[kani::proof] #[kani::unwind(26)] fn k_c07_long_bits_to_octets() { contract_bits_to_octets_long(&mut KaniCtx) }
}
