// Included into validator/linking/utils.rs as `pub(crate) mod verif_hook`.
use super::*;
use crate::verif_hooks::*;

/// C07 unit 2 — `octet_string_to_bit_string` / `is_bit_set(b, 128, ·)` per byte, all 256 values:
/// exactly 8 bits are produced and bit k is `(b >> (7-k)) & 1` (MSB first); the reverse conversion
/// gives the byte back.
pub fn contract_octet_to_bits<C: Ctx>(cx: &mut C) {
    let b = cx.any_u8();
    let bits = octet_string_to_bit_string(&[b]);
    vob!(cx, "C07.octet_to_bits.eight_bits_per_octet", bits.len() == 8);
    if bits.len() == 8 {
        let mut k = 0;
        let mut ok = true;
        while k < 8 {
            ok = ok && bits[k] == ((b >> (7 - k)) & 1 == 1);
            k += 1;
        }
        vob!(cx, "C07.octet_to_bits.msb_first", ok);
        let back = bit_string_to_octet_string(&bits);
        vob!(cx, "C07.octet_to_bits.round_trip", match back { Ok(v) => v.len() == 1 && v[0] == b, Err(_) => false });
    }
}

/// C07 unit 3 — `bit_string_to_octet_string` on concrete lengths with symbolic contents:
/// Err exactly when the length is not a multiple of 8; otherwise byte j = sum bit[8j+i]*2^(7-i).
/// bounded: lengths listed in BIT_LENGTHS.
const BIT_LENGTHS_QUICK: &[usize] = &[0, 8, 9];
const BIT_LENGTHS_THOROUGH: &[usize] = &[1, 7, 15, 16, 17, 24];
pub fn contract_bits_to_octets<C: Ctx>(cx: &mut C) { contract_bits_to_octets_lens(cx, BIT_LENGTHS_QUICK) }
pub fn contract_bits_to_octets_long<C: Ctx>(cx: &mut C) { contract_bits_to_octets_lens(cx, BIT_LENGTHS_THOROUGH) }
fn contract_bits_to_octets_lens<C: Ctx>(cx: &mut C, lens: &[usize]) {
    let mut li = 0;
    while li < lens.len() {
        let len = lens[li];
        cx.note("len", len);
        let mut store = [false; 24];
        let mut i = 0;
        while i < len { store[i] = cx.any_bool(); i += 1; }
        let bits: &[bool] = &store[..len];
        let r = bit_string_to_octet_string(bits);
        vob!(cx, "C07.bits_to_octets.err_iff_not_multiple_of_8", r.is_err() == (len % 8 != 0));
        if let Ok(oct) = r {
            vob!(cx, "C07.bits_to_octets.one_octet_per_8_bits", oct.len() == len / 8);
            let mut j = 0;
            let mut ok = oct.len() == len / 8;
            while ok && j < len / 8 {
                let mut want: u8 = 0;
                let mut i = 0;
                while i < 8 { if bits[8 * j + i] { want |= 1 << (7 - i); } i += 1; }
                ok = oct[j] == want;
                j += 1;
            }
            vob!(cx, "C07.bits_to_octets.msb_first_value", ok);
            if ok {
                let back = octet_string_to_bit_string(&oct);
                vob!(cx, "C07.bits_to_octets.round_trip", back.as_slice() == bits);
            }
        }
        li += 1;
    }
}

#[cfg(kani)]
mod kani_harness {
    use super::*;
    #[kani::proof] #[kani::unwind(10)] fn k_c07_octet_to_bits() { contract_octet_to_bits(&mut KaniCtx) }
    #[kani::proof] #[kani::unwind(11)] fn k_c07_bits_to_octets() { contract_bits_to_octets(&mut KaniCtx) }
    #[kani::proof] #[kani::unwind(26)] fn k_c07_long_bits_to_octets() { contract_bits_to_octets_long(&mut KaniCtx) }
}


/// C04 — named numbers in bounds are resolved against the governing type: `find_tld_or_enum_value_by_name`
/// prefers the definition whose name is the governing type, and only then falls back to any definition that
/// declares the identifier; a value assignment of that name wins over both.
/// Bounded stand-in (native): 2..=3 INTEGER/ENUMERATED types that may declare the same identifier with different numbers.
pub fn contract_named_number_lookup<C: Ctx>(cx: &mut C) {
    #[cfg(not(kani))]
    {
        use crate::intermediate::types::*;
        const NAMES: [&str; 3] = ["Alpha", "Beta", "Gamma"];
        let k = 2 + cx.choose(2);
        let mut declares = [false; 3];
        let mut as_enum = [false; 3];
        let mut tlds: BTreeMap<String, ToplevelDefinition> = BTreeMap::new();
        for i in 0..k {
            declares[i] = cx.any_bool();
            as_enum[i] = cx.any_bool();
            let number = 10 * (i as i128 + 1);
            let ty = if as_enum[i] {
                ASN1Type::Enumerated(Enumerated { members: if declares[i] { vec![Enumeral { name: "hi".into(), description: None, index: number }] } else { vec![Enumeral { name: "other".into(), description: None, index: 1 }] }, extensible: None, constraints: vec![] })
            } else {
                ASN1Type::Integer(Integer { constraints: vec![], distinguished_values: Some(if declares[i] { vec![DistinguishedValue { name: "hi".into(), value: number }] } else { vec![DistinguishedValue { name: "other".into(), value: 1 }] }) })
            };
            tlds.insert(NAMES[i].into(), ToplevelDefinition::Type(ToplevelTypeDefinition { comments: String::new(), tag: None, name: NAMES[i].into(), ty, parameterization: None, module_header: None }));
        }
        let governing = cx.choose(k);
        cx.describe(|| format!("types={:?} governing_type={}", (0..k).map(|i| format!("{}{}", NAMES[i], if declares[i] { format!(" declares hi({})", 10 * (i + 1)) } else { String::new() })).collect::<Vec<_>>(), NAMES[governing]));
        let got = find_tld_or_enum_value_by_name(&NAMES[governing].to_string(), &"hi".to_string(), &tlds);
        if declares[governing] {
            vob!(cx, "C04.named_number.resolved_against_the_governing_type", got == Some(ASN1Value::Integer(10 * (governing as i128 + 1))));
            vob!(cx, "C06.named_number.bound_used_for_the_width_is_the_governing_types", got == Some(ASN1Value::Integer(10 * (governing as i128 + 1))));
        } else if (0..k).any(|i| declares[i]) {
            vob!(cx, "C04.named_number.falls_back_to_a_declaring_type", matches!(got, Some(ASN1Value::Integer(v)) if (0..k).any(|i| declares[i] && v == 10 * (i as i128 + 1))));
        } else {
            vob!(cx, "C04.named_number.unknown_identifier_is_not_resolved", got.is_none());
        }
    }
    #[cfg(kani)]
    { let _ = cx; }
}

/// accessor for the native replay of the Verus clauses C04.find_name.* (unit C07_lookup): the definitions as (name, kind, declared names with numbers);
/// kind 0 = INTEGER with named numbers, 1 = ENUMERATED, 2 = INTEGER value assignment (its first number is the value)
#[cfg(not(kani))]
pub fn hook_find_name(type_name: &str, name: &str, defs: &[(String, u8, Vec<(String, i128)>)]) -> Option<i128> {
    use crate::intermediate::types::*;
    let mut tlds: BTreeMap<String, ToplevelDefinition> = BTreeMap::new();
    for (n, kind, items) in defs {
        let d = match kind {
            0 => ToplevelDefinition::Type(ToplevelTypeDefinition { comments: String::new(), tag: None, name: n.clone(), parameterization: None, module_header: None,
                ty: ASN1Type::Integer(Integer { constraints: vec![], distinguished_values: Some(items.iter().map(|(i, v)| DistinguishedValue { name: i.clone(), value: *v }).collect()) }) }),
            1 => ToplevelDefinition::Type(ToplevelTypeDefinition { comments: String::new(), tag: None, name: n.clone(), parameterization: None, module_header: None,
                ty: ASN1Type::Enumerated(Enumerated { members: items.iter().map(|(i, v)| Enumeral { name: i.clone(), description: None, index: *v }).collect(), extensible: None, constraints: vec![] }) }),
            _ => ToplevelDefinition::Value(ToplevelValueDefinition::from((n.as_str(), ASN1Value::Integer(items.first().map_or(0, |x| x.1)), ASN1Type::Integer(Integer { constraints: vec![], distinguished_values: None })))),
        };
        tlds.insert(n.clone(), d);
    }
    match find_tld_or_enum_value_by_name(&type_name.to_string(), &name.to_string(), &tlds) { Some(ASN1Value::Integer(i)) => Some(i), Some(_) => Some(i128::MIN), None => None }
}
#[cfg(not(kani))]
pub fn hook_octet_string_to_bit_string(bytes: &[u8]) -> Vec<bool> { octet_string_to_bit_string(bytes) }
pub fn hook_bit_string_to_octet_string(bits: &[bool]) -> Option<Vec<u8>> { bit_string_to_octet_string(bits).ok() }
