// Included into lexer/sequence.rs as `pub(crate) mod verif_hook`.
use super::*;
use crate::verif_hooks::*;

/// C05 / C02 — the SEQUENCE body parser (`sequence` -> `sequence_component` / `extension_group`): components in source
/// order, first-addition index = number of root components, and each `[[ ]]` group becomes ONE member named
/// ext_group_<first component> whose type is a SEQUENCE of exactly the grouped components in order.
/// Bounded stand-in (native): 0..=2 root components, then 0..=3 additions, each a plain component or a group of
/// 1..=2 components with or without version number; trailing comma variants.
pub fn contract_sequence_parser<C: Ctx>(cx: &mut C) {
    #[cfg(not(kani))]
    {
        use crate::intermediate::types::*;
        let n_root = cx.choose(3);
        let marker = cx.any_bool();
        let n_add = if marker { cx.choose(4) } else { 0 };
        let mut src = String::from("SEQUENCE { ");
        let mut first = true;
        // expected members: (name, Some(grouped names)) for groups
        let mut want: Vec<(String, Option<Vec<String>>)> = vec![];
        for i in 0..n_root {
            if !first { src.push_str(", "); }
            first = false;
            src.push_str(&format!("r{i} BOOLEAN"));
            want.push((format!("r{i}"), None));
        }
        if marker {
            if !first { src.push_str(", "); }
            first = false;
            src.push_str("...");
            for j in 0..n_add {
                src.push_str(", ");
                match cx.choose(3) {
                    0 => { src.push_str(&format!("a{j} BOOLEAN OPTIONAL")); want.push((format!("a{j}"), None)); }
                    g => {
                        let versioned = cx.any_bool();
                        let names: Vec<String> = (0..g).map(|m| format!("g{j}x{m}")).collect();
                        src.push_str("[[ ");
                        if versioned { src.push_str(&format!("{}: ", j + 2)); }
                        src.push_str(&names.iter().map(|n| format!("{n} BOOLEAN")).collect::<Vec<_>>().join(", "));
                        src.push_str(" ]]");
                        want.push((format!("ext_group_{}", names[0]), Some(names)));
                    }
                }
            }
        }
        let _ = first;
        src.push_str(" }");
        cx.describe(|| src.clone());
        match sequence(src.as_str().into()) {
            Ok((_, ASN1Type::Sequence(s))) => {
                let got: Vec<String> = s.members.iter().map(|m| m.name.clone()).collect();
                vob!(cx, "C02.sequence_parser.components_in_source_order", got == want.iter().map(|w| w.0.clone()).collect::<Vec<_>>());
                vob!(cx, "C05.sequence_parser.marker_iff_extensible_and_index_is_root_count", s.extensible == if marker { Some(n_root) } else { None });
                let mut groups_ok = s.members.len() == want.len();
                for (m, w) in s.members.iter().zip(want.iter()) {
                    match (&w.1, &m.ty) {
                        (Some(names), ASN1Type::Sequence(inner)) => {
                            groups_ok = groups_ok && inner.members.iter().map(|x| x.name.clone()).collect::<Vec<_>>() == *names && inner.extensible.is_none();
                        }
                        (Some(_), _) => groups_ok = false,
                        (None, ASN1Type::Boolean(_)) => {}
                        (None, _) => groups_ok = false,
                    }
                }
                vob!(cx, "C05.sequence_parser.each_group_is_one_member_with_exactly_its_components", groups_ok);
            }
            _ => { vob!(cx, "C02.sequence_parser.parses", false); }
        }
    }
    #[cfg(kani)]
    { let _ = cx; }
}
