// Included into lexer/util.rs as `pub(crate) mod verif_hook`.
use super::*;
use crate::verif_hooks::*;

/// C07 unit 1 — `hex_to_bools`: for every `char`: a hex digit 0-9A-F of value v yields the 4-bit
/// MSB-first binary of v; every other character yields all-false.
pub fn contract_hex_to_bools<C: Ctx>(cx: &mut C) {
    let code = cx.any_u32();
    let c = match char::from_u32(code) { Some(c) => c, None => { cx.assume(false); return; } };
    let r = hex_to_bools(c);
    let digit: Option<u32> = if code >= '0' as u32 && code <= '9' as u32 { Some(code - '0' as u32) }
        else if code >= 'A' as u32 && code <= 'F' as u32 { Some(code - 'A' as u32 + 10) } else { None };
    vcover!(cx, "C07.hex_to_bools.cover_digit", digit.is_some());
    vcover!(cx, "C07.hex_to_bools.cover_non_digit", digit.is_none());
    let v = digit.unwrap_or(0);
    vob!(cx, "C07.hex_to_bools.bit3_msb", r[0] == (v & 8 != 0));
    vob!(cx, "C07.hex_to_bools.bit2", r[1] == (v & 4 != 0));
    vob!(cx, "C07.hex_to_bools.bit1", r[2] == (v & 2 != 0));
    vob!(cx, "C07.hex_to_bools.bit0_lsb", r[3] == (v & 1 != 0));
}

#[cfg(kani)]
mod kani_harness {
    use super::*;
    #[kani::proof] fn k_c07_hex_to_bools() { contract_hex_to_bools(&mut KaniCtx) }
}
