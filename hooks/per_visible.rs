// Included into intermediate/encoding_rules/per_visible.rs as `pub mod verif_hook` (the fields of
// PerVisibleRangeConstraints are private to that file).
use super::*;
use crate::verif_hooks::*;

fn lo_ok(min: Option<i128>, v: i128) -> bool { match min { Some(m) => m <= v, None => true } }
fn hi_ok(max: Option<i128>, v: i128) -> bool { match max { Some(m) => v <= m, None => true } }

/// C04 — `impl AddAssign<PerVisibleRangeConstraints> for PerVisibleRangeConstraints`.
/// X.691 §10.3: serially applied constraints intersect; `None` reads as -inf (min) / +inf (max);
/// extensibility and the size flag are sticky.
pub fn contract_add_assign<C: Ctx>(cx: &mut C) {
    let (min1, max1, min2, max2) = (any_opt_i128(cx), any_opt_i128(cx), any_opt_i128(cx), any_opt_i128(cx));
    let (e1, e2, s1, s2) = (cx.any_bool(), cx.any_bool(), cx.any_bool(), cx.any_bool());
    let v = cx.any_i128();
    let mut a = PerVisibleRangeConstraints { min: min1, max: max1, extensible: e1, is_size_constraint: s1 };
    let b = PerVisibleRangeConstraints { min: min2, max: max2, extensible: e2, is_size_constraint: s2 };
    a += b;
    vcover!(cx, "C04.add_assign.cover_both_bounded", min1.is_some() && max1.is_some() && min2.is_some() && max2.is_some());
    vcover!(cx, "C04.add_assign.cover_open_ends", min1.is_none() && max2.is_none());
    let in1 = lo_ok(min1, v) && hi_ok(max1, v);
    let in2 = lo_ok(min2, v) && hi_ok(max2, v);
    let in_r = lo_ok(a.min, v) && hi_ok(a.max, v);
    // never excludes a value that both serial constraints permit ...
    vob!(cx, "C04.add_assign.keeps_permitted_values", !(in1 && in2) || in_r);
    // ... and is exactly the intersection (no value outside either operand is admitted)
    vob!(cx, "C04.add_assign.is_intersection", !in_r || (in1 && in2));
    // bounds as formulas: lower = max of the lowers, upper = min of the uppers
    let exp_min = match (min1, min2) { (Some(x), Some(y)) => Some(if x > y { x } else { y }), (Some(x), None) | (None, Some(x)) => Some(x), _ => None };
    let exp_max = match (max1, max2) { (Some(x), Some(y)) => Some(if x < y { x } else { y }), (Some(x), None) | (None, Some(x)) => Some(x), _ => None };
    vob!(cx, "C04.add_assign.lower_is_max_of_lowers", a.min == exp_min);
    vob!(cx, "C04.add_assign.upper_is_min_of_uppers", a.max == exp_max);
    vob!(cx, "C04.add_assign.extensible_sticky", a.extensible == (e1 || e2));
    vob!(cx, "C04.add_assign.size_flag_sticky", a.is_size_constraint == (s1 || s2));
}

/// C04 / C06 — `PerVisibleRangeConstraints::min::<I>()` / `max::<I>()`, the accessors through which every consumer
/// (format_range_annotations, constraints_and_type_name -> int_type_token, fixed_size) reads the folded bounds, in the two
/// instantiations the generator uses (I = i128 and I = usize).  For every stored bound: the accessor returns exactly that
/// bound when it is representable in I and None otherwise — in particular a finite bound is never read back as "no bound"
/// by the i128 instantiation (the one the emitted annotation and the integer width are computed from).
pub fn contract_range_accessors<C: Ctx>(cx: &mut C) {
    let (min, max) = (any_opt_i128(cx), any_opt_i128(cx));
    let c = PerVisibleRangeConstraints { min, max, extensible: cx.any_bool(), is_size_constraint: cx.any_bool() };
    vcover!(cx, "C04.range_accessors.cover_above_i64", matches!(max, Some(m) if m > i64::MAX as i128));
    vcover!(cx, "C04.range_accessors.cover_below_i64", matches!(min, Some(m) if m < i64::MIN as i128));
    vob!(cx, "C04.range_accessors.lower_bound_read_back_unchanged", c.min::<i128>() == min);
    vob!(cx, "C04.range_accessors.upper_bound_read_back_unchanged", c.max::<i128>() == max);
    let as_usize = |o: Option<i128>| match o { Some(v) if v >= 0 && v <= usize::MAX as i128 => Some(v as usize), _ => None };
    vob!(cx, "C04.range_accessors.lower_bound_as_usize_when_representable", c.min::<usize>() == as_usize(min));
    vob!(cx, "C04.range_accessors.upper_bound_as_usize_when_representable", c.max::<usize>() == as_usize(max));
    vob!(cx, "C04.range_accessors.flags_read_back_unchanged", c.is_extensible() == c.extensible && c.is_size_constraint() == c.is_size_constraint);
}

/// accessors for the native replay of the Verus unit C04_bounds (the functions are private to this file)
pub fn hook_intersect_single_and_range(value: &ASN1Value, min: Option<&ASN1Value>, max: Option<&ASN1Value>, x1: bool, x2: bool) -> Result<Option<SubtypeElements>, GrammarError> {
    intersect_single_and_range(value, min, max, x1, x2, None, true)
}
pub fn hook_union_single_and_range(v: &ASN1Value, min: Option<&ASN1Value>, max: Option<&ASN1Value>, x1: bool, x2: bool) -> Result<Option<SubtypeElements>, GrammarError> {
    union_single_and_range(v, min, None, max, x1, x2, true)
}
pub fn hook_fold_constraint_set(set: &SetOperation) -> Result<Option<SubtypeElements>, GrammarError> {
    fold_constraint_set(set, None, true)
}
/// (min, max, extensible, is_size) of the range folded from one element / one constraint
pub fn hook_range_from_element(e: Option<&SubtypeElements>) -> Result<(Option<i128>, Option<i128>, bool, bool), GrammarError> {
    let c: PerVisibleRangeConstraints = e.try_into()?;
    Ok((c.min, c.max, c.extensible, c.is_size_constraint))
}
pub fn hook_range_from_constraint(c: &Constraint) -> Result<(Option<i128>, Option<i128>, bool, bool), GrammarError> {
    let c: PerVisibleRangeConstraints = c.try_into()?;
    Ok((c.min, c.max, c.extensible, c.is_size_constraint))
}
pub fn hook_default_unsigned() -> (Option<i128>, Option<i128>, bool, bool) {
    let c = PerVisibleRangeConstraints::default_unsigned();
    (c.min, c.max, c.extensible, c.is_size_constraint)
}
pub fn hook_compare_optional(first: Option<&ASN1Value>, second: Option<&ASN1Value>, take_min: bool) -> Result<Option<ASN1Value>, GrammarError> {
    compare_optional_asn1values(first, second, |a, b| if take_min { a.min(b, None) } else { a.max(b, None) })
}
pub fn hook_union_optional(first: Option<&ASN1Value>, second: Option<&ASN1Value>, take_min: bool) -> Result<Option<ASN1Value>, GrammarError> {
    union_optional_asn1values(first, second, |a, b| if take_min { a.min(b, None) } else { a.max(b, None) })
}

#[cfg(kani)]
mod kani_harness {
    use super::*;
    #[kani::proof] fn k_c04_add_assign() { contract_add_assign(&mut KaniCtx) }
    #[kani::proof] fn k_c04_range_accessors() { contract_range_accessors(&mut KaniCtx) }
}
