// Included into lexer/enumerated.rs as `pub(crate) mod verif_hook`.
use super::*;
use crate::verif_hooks::*;

/// C14 — the parser glue around `assign_enumeral_numbers` (`enumerated` -> `enumerated_body`): the numbers written in
/// the source reach the numbering function unchanged, the assigned numbers are zipped back onto the right items,
/// and names/order are preserved.  Bounded stand-in (native): up to `max_root` root items and `max_add` additions,
/// each identifier-only or numbered from {-1,0,1,2,5}; with and without extension marker.
pub fn contract_enumerated_parser<C: Ctx>(cx: &mut C, max_root: usize, max_add: usize) {
    const ALPHABET: [Option<i128>; 6] = [None, Some(-1), Some(0), Some(1), Some(2), Some(5)];
    // C13-adjacent: comments between the tokens of an enumeration must not change names or numbers
    // 0 none, 1 `-- c --` after each comma, 2 `/* c */` after each comma, 3 `--c--` inside the parentheses right before the number,
    // 4 nested block comment whose inner opener is followed by `/`,
    // 5 / 6 a block / line comment glued (no white-space) to the token before it: after `{`, after an identifier, after `)`, after `...`
    // 7 a line comment that runs to the end of the line and contains multi-byte characters (and a word that would lex as an item)
    // 8 a line comment, 9 a block comment between a number and its closing parenthesis; 10 compact notation without any white-space
    let comments = cx.choose(12);
    let between = ["", " -- c -- ", " /* c */ ", "", " /* a /*/ b */ c */ ", "", "", " -- temperature in \u{b0}C, \u{20ac} zz\n ", "", "", "", ""][comments];
    let glued = ["", "", "", "", "", "/*g*/", "--g--", "", "", "", "", ""][comments];
    let after_number = ["", "", "", "", "", "", "", "", " -- n --", " /* n */ ", "", ""][comments];
    let compact = comments == 10;
    let in_parens = if comments == 3 { "--c--" } else { "" };
    let n_root = 1 + cx.choose(max_root);
    let marker = cx.any_bool();
    let n_add = if marker { cx.choose(max_add + 1) } else { 0 };
    let mut root = Vec::new();
    let mut adds = Vec::new();
    let mut src = format!("ENUMERATED {{{glued} ");
    let mut names: Vec<String> = Vec::new();
    for i in 0..n_root {
        let w = ALPHABET[cx.choose(6)];
        root.push(w);
        let name = format!("r{i}");
        if i > 0 { src.push_str(", "); src.push_str(between); }
        src.push_str(&name);
        src.push_str(glued);
        if let Some(v) = w { src.push_str(&format!("({in_parens}{v}{after_number}){glued}")); }
        names.push(name);
    }
    if marker {
        src.push_str(", ...");
        src.push_str(glued);
        for i in 0..n_add {
            let w = ALPHABET[cx.choose(6)];
            adds.push(w);
            let name = format!("x{i}");
            src.push_str(", ");
            src.push_str(between);
            src.push_str(&name);
            src.push_str(glued);
            if let Some(v) = w { src.push_str(&format!("({in_parens}{v}{after_number}){glued}")); }
            names.push(name);
        }
    }
    // 11: comments in front of the closing brace that no item has consumed (a line comment, then a block comment)
    if comments == 11 { src.push_str(" -- last\n -- (more to come)\n /* b */"); }
    src.push_str(" }");
    let src = if compact { src.replace(' ', "") } else { src };
    cx.describe(|| src.clone());
    let parsed = enumerated(src.as_str().into());
    match parsed {
        Ok((_, ASN1Type::Enumerated(e))) => {
            let (rn, an) = assign_enumeral_numbers(&root, &adds);
            let want: Vec<i128> = rn.into_iter().chain(an).collect();
            let got_names: Vec<String> = e.members.iter().map(|m| m.name.clone()).collect();
            let got_numbers: Vec<i128> = e.members.iter().map(|m| m.index).collect();
            vob!(cx, "C14.enumerated_parser.identifiers_preserved_in_order", got_names == names);
            vob!(cx, "C14.enumerated_parser.numbers_are_those_assigned_by_x680_20", got_numbers == want);
            vob!(cx, "C14.enumerated_parser.marker_iff_extensible", e.extensible.is_some() == marker);
            vob!(cx, "C14.enumerated_parser.first_addition_index", !marker || e.extensible == Some(n_root));
        }
        _ => { vob!(cx, "C14.enumerated_parser.parses", false); }
    }
}
pub fn contract_enumerated_parser_quick<C: Ctx>(cx: &mut C) { contract_enumerated_parser(cx, 3, 2) }
pub fn contract_enumerated_parser_full<C: Ctx>(cx: &mut C) { contract_enumerated_parser(cx, 5, 3) }
