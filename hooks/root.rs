// Included into /repo/rasn-compiler/src/lib.rs as `pub mod verif_hooks` under cfg(librasn_compiler_verif).
//
// Each `contract_*` function below is ONE contract in executable form, written once and used twice:
//   * under Kani (`KaniCtx`): `any_*` = kani::any(), `assume` = kani::assume, `ob` = kani::assert  -> the deciding proof
//   * natively  (`GridCtx` / `BytesCtx`): the same body runs on the real crate for replay of counterexamples
// so the postcondition that Kani decides and the one replayed natively cannot drift apart.

pub trait Ctx {
    fn any_bool(&mut self) -> bool;
    fn any_u8(&mut self) -> u8;
    fn any_u32(&mut self) -> u32;
    fn any_u64(&mut self) -> u64;
    fn any_i128(&mut self) -> i128;
    /// a value in 0..n
    fn choose(&mut self, n: usize) -> usize;
    /// precondition; returns `c` (native callers return early on false)
    fn assume(&mut self, c: bool) -> bool;
    /// named obligation
    fn ob(&mut self, name: &'static str, c: bool);
    /// reachability witness behind a precondition
    fn cover(&mut self, name: &'static str, c: bool);
    /// concrete (non-symbolic) parameter of this evaluation, recorded for replay output only
    fn note(&mut self, _what: &'static str, _v: usize) {}
    /// human-readable rendering of the generated input, for replay output only (never evaluated under Kani)
    fn describe<F: FnOnce() -> String>(&mut self, _f: F) {}
}

/// reachability witness; Kani's cover needs a literal message, hence a macro
#[cfg(kani)]
macro_rules! vcover { ($cx:expr, $n:literal, $c:expr) => { kani::cover!($c, $n) }; }
#[cfg(not(kani))]
macro_rules! vcover { ($cx:expr, $n:literal, $c:expr) => { $cx.cover($n, $c) }; }
pub(crate) use vcover;
/// named obligation; Kani's assert needs a literal message, hence a macro
#[cfg(kani)]
macro_rules! vob { ($cx:expr, $n:literal, $c:expr) => { kani::assert($c, $n) }; }
#[cfg(not(kani))]
macro_rules! vob { ($cx:expr, $n:literal, $c:expr) => { $cx.ob($n, $c) }; }
pub(crate) use vob;

pub fn any_opt_i128<C: Ctx>(cx: &mut C) -> Option<i128> {
    if cx.any_bool() {
        Some(cx.any_i128())
    } else {
        None
    }
}

#[cfg(kani)]
pub struct KaniCtx;
#[cfg(kani)]
impl Ctx for KaniCtx {
    fn any_bool(&mut self) -> bool { kani::any() }
    fn any_u8(&mut self) -> u8 { kani::any() }
    fn any_u32(&mut self) -> u32 { kani::any() }
    fn any_u64(&mut self) -> u64 { kani::any() }
    fn any_i128(&mut self) -> i128 { kani::any() }
    fn choose(&mut self, n: usize) -> usize { let k: usize = kani::any(); kani::assume(k < n); k }
    fn assume(&mut self, c: bool) -> bool { kani::assume(c); true }
    fn ob(&mut self, _name: &'static str, _c: bool) {}
    fn cover(&mut self, _name: &'static str, _c: bool) {}
}

// ------------------------------------------------------------------------------------------------
// native contexts (replay only; never decide)
// ------------------------------------------------------------------------------------------------
#[cfg(not(kani))]
pub mod native {
    use super::Ctx;

    pub const GRID_I128: &[i128] = &[
        i128::MIN, i128::MIN + 1, -(1 << 64) - 1, -(1 << 64), -(1 << 64) + 1, -(1 << 63) - 1, -(1 << 63), -(1 << 63) + 1,
        -(1 << 32) - 1, -(1 << 32), -(1 << 31) - 1, -(1 << 31), -(1 << 31) + 1, -(1 << 16), -(1 << 15) - 1, -(1 << 15), -(1 << 15) + 1,
        -257, -256, -255, -129, -128, -127, -2, -1, 0, 1, 2, 5, 126, 127, 128, 129, 254, 255, 256, 257, (1 << 15) - 1, 1 << 15, (1 << 15) + 1,
        (1 << 16) - 1, 1 << 16, (1 << 16) + 1, (1 << 31) - 1, 1 << 31, (1 << 31) + 1, (1 << 32) - 1, 1 << 32, (1 << 32) + 1,
        (1 << 63) - 1, 1 << 63, (1 << 63) + 1, (1 << 64) - 1, 1 << 64, (1 << 64) + 1, i128::MAX - 1, i128::MAX,
    ];
    pub const GRID_U64: &[u64] = &[0, 1, 2, 3, 30, 31, 32, 127, 128, 255, 256, 65535, 65536, (1 << 32) - 1, 1 << 32, (1 << 63) - 1, 1 << 63, u64::MAX - 1, u64::MAX];

    #[derive(Default)]
    pub struct Outcome {
        pub failed: Vec<(&'static str, String)>,
        pub checked: Vec<&'static str>,
        pub rejected: bool,
    }

    /// Exhaustive product enumeration over the choices a contract draws (odometer over the draw sequence).
    pub struct GridCtx {
        pub prefix: Vec<usize>,
        pub arity: Vec<usize>,
        pub pos: usize,
        pub drawn: Vec<String>,
        pub out: Outcome,
        pub rng: Option<u64>,
    }
    impl GridCtx {
        pub fn new(prefix: Vec<usize>) -> Self {
            GridCtx { prefix, arity: vec![], pos: 0, drawn: vec![], out: Outcome::default(), rng: None }
        }
        fn pick(&mut self, n: usize) -> usize {
            let i = self.pos;
            self.pos += 1;
            if i >= self.prefix.len() {
                self.prefix.push(0);
            }
            if i >= self.arity.len() {
                self.arity.push(n);
            } else {
                self.arity[i] = n;
            }
            if let Some(state) = self.rng.as_mut() {
                // xorshift64*: random sampling when the product is too large to enumerate
                *state ^= *state >> 12; *state ^= *state << 25; *state ^= *state >> 27;
                let r = state.wrapping_mul(0x2545F4914F6CDD1D);
                self.prefix[i] = (r % n.max(1) as u64) as usize;
            }
            self.prefix[i].min(n.saturating_sub(1))
        }
        /// next choice vector in odometer order, or None when the product is exhausted
        pub fn next_prefix(&self) -> Option<Vec<usize>> {
            let mut p: Vec<usize> = self.prefix[..self.pos].to_vec();
            let mut i = p.len();
            while i > 0 {
                i -= 1;
                if p[i] + 1 < self.arity[i] {
                    p[i] += 1;
                    p.truncate(i + 1);
                    return Some(p);
                }
            }
            None
        }
    }
    impl Ctx for GridCtx {
        fn any_bool(&mut self) -> bool { let v = self.pick(2) == 1; self.drawn.push(format!("bool={v}")); v }
        fn any_u8(&mut self) -> u8 { let v = self.pick(256) as u8; self.drawn.push(format!("u8={v}")); v }
        fn any_u32(&mut self) -> u32 { let v = self.pick(0x11_0000 + 64) as u32; let v = if v >= 0x11_0000 { u32::MAX - (v - 0x11_0000) } else { v }; self.drawn.push(format!("u32={v:#x}")); v }
        fn any_u64(&mut self) -> u64 { let v = GRID_U64[self.pick(GRID_U64.len())]; self.drawn.push(format!("u64={v}")); v }
        fn any_i128(&mut self) -> i128 { let v = GRID_I128[self.pick(GRID_I128.len())]; self.drawn.push(format!("i128={v}")); v }
        fn choose(&mut self, n: usize) -> usize { let v = self.pick(n); self.drawn.push(format!("choice={v}/{n}")); v }
        fn assume(&mut self, c: bool) -> bool { if !c { self.out.rejected = true; } c }
        fn ob(&mut self, name: &'static str, c: bool) {
            self.out.checked.push(name);
            if !c { let d = self.drawn.join(" "); self.out.failed.push((name, d)); }
        }
        fn cover(&mut self, _name: &'static str, _c: bool) {}
        fn note(&mut self, what: &'static str, v: usize) { self.drawn.push(format!("{what}={v}")); }
        fn describe<F: FnOnce() -> String>(&mut self, f: F) { self.drawn.push(f().replace('\n', " ")); }
    }

    /// Replays the byte vectors of a Kani concrete playback in draw order.
    pub struct BytesCtx {
        pub vals: Vec<Vec<u8>>,
        pub pos: usize,
        pub drawn: Vec<String>,
        pub out: Outcome,
    }
    impl BytesCtx {
        pub fn new(vals: Vec<Vec<u8>>) -> Self { BytesCtx { vals, pos: 0, drawn: vec![], out: Outcome::default() } }
        fn take(&mut self, n: usize) -> [u8; 16] {
            let mut b = [0u8; 16];
            if let Some(v) = self.vals.get(self.pos) {
                for (i, x) in v.iter().take(n).enumerate() { b[i] = *x; }
            }
            self.pos += 1;
            b
        }
    }
    impl Ctx for BytesCtx {
        fn any_bool(&mut self) -> bool { let v = self.take(1)[0] & 1 == 1; self.drawn.push(format!("bool={v}")); v }
        fn any_u8(&mut self) -> u8 { let v = self.take(1)[0]; self.drawn.push(format!("u8={v}")); v }
        fn any_u32(&mut self) -> u32 { let b = self.take(4); let v = u32::from_le_bytes([b[0], b[1], b[2], b[3]]); self.drawn.push(format!("u32={v:#x}")); v }
        fn any_u64(&mut self) -> u64 { let b = self.take(8); let mut a = [0u8; 8]; a.copy_from_slice(&b[..8]); let v = u64::from_le_bytes(a); self.drawn.push(format!("u64={v}")); v }
        fn any_i128(&mut self) -> i128 { let v = i128::from_le_bytes(self.take(16)); self.drawn.push(format!("i128={v}")); v }
        fn choose(&mut self, n: usize) -> usize { let b = self.take(8); let mut a = [0u8; 8]; a.copy_from_slice(&b[..8]); let v = (u64::from_le_bytes(a) as usize) % n.max(1); self.drawn.push(format!("choice={v}/{n}")); v }
        fn assume(&mut self, c: bool) -> bool { if !c { self.out.rejected = true; } c }
        fn ob(&mut self, name: &'static str, c: bool) {
            self.out.checked.push(name);
            if !c { let d = self.drawn.join(" "); self.out.failed.push((name, d)); }
        }
        fn cover(&mut self, _name: &'static str, _c: bool) {}
        fn note(&mut self, what: &'static str, v: usize) { self.drawn.push(format!("{what}={v}")); }
        fn describe<F: FnOnce() -> String>(&mut self, f: F) { self.drawn.push(f().replace('\n', " ")); }
    }

    pub type ContractFn<C> = fn(&mut C);

    /// Run a contract over its whole grid; print every failing obligation once (first failing input) and
    /// return the number of distinct failing obligations.  `limit` caps the number of evaluations.
    pub fn run_grid(unit: &str, f: fn(&mut GridCtx), limit: u64) -> i32 {
        let mut prefix = vec![];
        let mut evals: u64 = 0;
        let mut accepted: u64 = 0;
        let mut seen: Vec<&'static str> = vec![];
        let mut names: Vec<&'static str> = vec![];
        let seed: u64 = std::env::var("VERIF_SEED").ok().and_then(|s| s.parse().ok()).unwrap_or(1);
        let mut rng: Option<u64> = None;
        let mut mode = "exhaustive";
        let trace = std::env::var("VERIF_TRACE").is_ok();
        let mut panicked: Option<String> = None;
        std::panic::set_hook(Box::new(|_| {}));
        loop {
            let mut cx = GridCtx::new(prefix);
            cx.rng = rng;
            // a panic of the code under contract is an outcome of that input, not of the whole run
            if std::panic::catch_unwind(std::panic::AssertUnwindSafe(|| f(&mut cx))).is_err() {
                if panicked.is_none() { panicked = Some(cx.drawn.join(" ")); }
                cx.out.rejected = true;
            }
            rng = cx.rng;
            evals += 1;
            if !cx.out.rejected { accepted += 1; }
            if trace { println!("REPLAY-TRACE {}", cx.drawn.join(" ")); }
            for n in &cx.out.checked { if !names.contains(n) { names.push(n); } }
            for (name, inputs) in &cx.out.failed {
                // up to 5 failing inputs per obligation are reported (a known finding must match every one of them)
                let k = seen.iter().filter(|n| *n == name).count();
                if k < 5 {
                    seen.push(name);
                    println!("REPLAY-FAIL unit={unit} obligation={name} inputs=[{inputs}]");
                }
            }
            if evals == 1 {
                // size of the product as seen by the first evaluation
                let mut prod: f64 = 1.0;
                for a in &cx.arity[..cx.pos] { prod *= *a as f64; }
                if prod > limit as f64 {
                    mode = "random-sample";
                    rng = Some(seed.wrapping_mul(0x9E3779B97F4A7C15) | 1);
                }
            }
            if rng.is_some() {
                if evals >= limit { break; }
                prefix = vec![];
                continue;
            }
            match cx.next_prefix() {
                Some(p) if evals < limit / 2 => prefix = p,
                Some(_) => { mode = "exhaustive-prefix+random-sample"; rng = Some(seed.wrapping_mul(0x9E3779B97F4A7C15) | 1); prefix = vec![]; }
                None => break,
            }
        }
        let _ = std::panic::take_hook();
        seen.sort(); seen.dedup();
        let mut failing = seen.len();
        if let Some(inputs) = &panicked {
            // one failing obligation per property the unit speaks about: `<Cxx>.<unit>.does_not_panic`
            let mut props: Vec<&str> = names.iter().filter_map(|n| n.split('.').next()).collect();
            props.sort(); props.dedup();
            for p in props { println!("REPLAY-FAIL unit={unit} obligation={p}.{unit}.does_not_panic inputs=[{inputs}]"); failing += 1; }
        }
        println!("REPLAY-OBLIGATIONS unit={unit} names={}", names.join(","));
        println!("REPLAY-SUMMARY unit={unit} mode={mode} evaluations={evals} accepted={accepted} obligations_exercised={} failing={}", names.len(), failing);
        failing as i32
    }

    pub fn run_bytes(unit: &str, f: fn(&mut BytesCtx), vals: Vec<Vec<u8>>) -> i32 {
        let mut cx = BytesCtx::new(vals);
        f(&mut cx);
        for (name, inputs) in &cx.out.failed {
            println!("REPLAY-FAIL unit={unit} obligation={name} inputs=[{inputs}]");
        }
        println!("REPLAY-SUMMARY unit={unit} evaluations=1 accepted={} obligations_exercised={} failing={}", if cx.out.rejected { 0 } else { 1 }, cx.out.checked.len(), cx.out.failed.len());
        cx.out.failed.len() as i32
    }
}

// ------------------------------------------------------------------------------------------------
// Contracts on items reachable from the crate root
// ------------------------------------------------------------------------------------------------
use crate::intermediate::*;

fn any_tagenv<C: Ctx>(cx: &mut C) -> TaggingEnvironment {
    match cx.choose(3) {
        0 => TaggingEnvironment::Automatic,
        1 => TaggingEnvironment::Implicit,
        _ => TaggingEnvironment::Explicit,
    }
}

/// C03 unit 1 — `impl Add<&TaggingEnvironment> for &TaggingEnvironment` (intermediate/mod.rs).
/// X.680 §31.2.7: the tag's own keyword wins; without a keyword (encoded as `Automatic`, see unit 2)
/// the module default applies.
pub fn contract_tagenv_add<C: Ctx>(cx: &mut C) {
    let default = any_tagenv(cx);
    let kw = any_tagenv(cx);
    let r = &default + &kw;
    let keyword_written = kw != TaggingEnvironment::Automatic;
    vcover!(cx, "C03.tagenv_add.cover_keyword", keyword_written);
    vcover!(cx, "C03.tagenv_add.cover_no_keyword", !keyword_written);
    vob!(cx, "C03.tagenv_add.keyword_wins", !keyword_written || r == kw);
    vob!(cx, "C03.tagenv_add.no_keyword_inherits_default", keyword_written || r == default);
    // explicit exactly when: EXPLICIT keyword, or no keyword in an EXPLICIT TAGS module
    let explicit_expected = kw == TaggingEnvironment::Explicit || (!keyword_written && default == TaggingEnvironment::Explicit);
    vob!(cx, "C03.tagenv_add.explicit_iff", (r == TaggingEnvironment::Explicit) == explicit_expected);
    let implicit_expected = kw == TaggingEnvironment::Implicit || (!keyword_written && default == TaggingEnvironment::Implicit);
    vob!(cx, "C03.tagenv_add.implicit_iff", (r == TaggingEnvironment::Implicit) == implicit_expected);
}

/// C03 unit 2 — `impl From<((Option<&str>, u64), Option<TaggingEnvironment>)> for AsnTag`.
/// Class as written (none => context-specific), number unchanged, keyword kept, none => "inherit".
pub fn contract_asn_tag_from<C: Ctx>(cx: &mut C) {
    let id = cx.any_u64();
    let kw_sel = cx.choose(3);
    let kw = match kw_sel { 0 => None, 1 => Some(TaggingEnvironment::Implicit), _ => Some(TaggingEnvironment::Explicit) };
    // the class keyword is matched with *concrete* strings (the only ones `asn_tag` can produce)
    let class_sel = cx.choose(4);
    let (t, expected): (AsnTag, TagClass) = match class_sel {
        0 => (AsnTag::from(((None, id), kw)), TagClass::ContextSpecific),
        1 => (AsnTag::from(((Some("APPLICATION"), id), kw)), TagClass::Application),
        2 => (AsnTag::from(((Some("UNIVERSAL"), id), kw)), TagClass::Universal),
        _ => (AsnTag::from(((Some("PRIVATE"), id), kw)), TagClass::Private),
    };
    vcover!(cx, "C03.asn_tag_from.cover_private_explicit", class_sel == 3 && kw_sel == 2);
    vob!(cx, "C03.asn_tag_from.class_as_written", t.tag_class == expected);
    vob!(cx, "C03.asn_tag_from.number_unchanged", t.id == id);
    vob!(cx, "C03.asn_tag_from.keyword_kept", match kw { Some(k) => t.environment == k, None => true });
    // no keyword => the value that `+` treats as "inherit the module default"
    vob!(cx, "C03.asn_tag_from.no_keyword_inherits", kw.is_some() || t.environment == TaggingEnvironment::Automatic);
}

/// C03 unit 3 — `impl From<(&str, Option<DefinitiveIdentifier>, Option<(..)>, Option<Exports>, Option<Vec<Import>>)> for ModuleHeader`.
pub fn contract_module_header_from<C: Ctx>(cx: &mut C) {
    let present = cx.any_bool();
    let tagenv = any_tagenv(cx);
    let ext = if cx.any_bool() { ExtensibilityEnvironment::Implied } else { ExtensibilityEnvironment::Explicit };
    let envs = if present { Some((None, tagenv, ext)) } else { None };
    let h = ModuleHeader::from(("M", None, envs, None, None));
    vcover!(cx, "C03.module_header_from.cover_present", present);
    vcover!(cx, "C03.module_header_from.cover_absent", !present);
    vob!(cx, "C03.module_header_from.tagging_default_carried", !present || h.tagging_environment == tagenv);
    vob!(cx, "C05.module_header_from.extensibility_default_carried", !present || h.extensibility_environment == ext);
    // X.680 §13.2/13.4: no DEFINITIONS defaults => EXPLICIT TAGS, extensibility not implied
    vob!(cx, "C03.module_header_from.absent_is_explicit_tags", present || h.tagging_environment == TaggingEnvironment::Explicit);
    vob!(cx, "C05.module_header_from.absent_is_not_implied", present || h.extensibility_environment == ExtensibilityEnvironment::Explicit);
    vob!(cx, "C03.module_header_from.no_imports_invented", h.imports.is_empty() && h.exports.is_none() && h.module_identifier.is_none());
}

fn any_inttype<C: Ctx>(cx: &mut C) -> IntegerType {
    match cx.choose(9) {
        0 => IntegerType::Uint8, 1 => IntegerType::Int8, 2 => IntegerType::Uint16, 3 => IntegerType::Int16,
        4 => IntegerType::Uint32, 5 => IntegerType::Int32, 6 => IntegerType::Uint64, 7 => IntegerType::Int64,
        _ => IntegerType::Unbounded,
    }
}
/// documented order: smaller value set first, unsigned before signed of the same size
fn rank(t: IntegerType) -> u8 {
    match t {
        IntegerType::Uint8 => 0, IntegerType::Int8 => 1, IntegerType::Uint16 => 2, IntegerType::Int16 => 3,
        IntegerType::Uint32 => 4, IntegerType::Int32 => 5, IntegerType::Uint64 => 6, IntegerType::Int64 => 7,
        IntegerType::Unbounded => 8,
    }
}

/// C06 unit 3 — `IntegerType::max_restrictive`: all 81 pairs.
pub fn contract_max_restrictive<C: Ctx>(cx: &mut C) {
    let a = any_inttype(cx);
    let b = any_inttype(cx);
    let r = a.max_restrictive(b);
    vcover!(cx, "C06.max_restrictive.cover_distinct", a != b);
    vob!(cx, "C06.max_restrictive.rank_is_min", rank(r) == rank(a).min(rank(b)));
    vob!(cx, "C06.max_restrictive.result_is_an_operand", r == a || r == b);
    vob!(cx, "C06.max_restrictive.unbounded_only_from_unbounded", r != IntegerType::Unbounded || (a == IntegerType::Unbounded && b == IntegerType::Unbounded));
    vob!(cx, "C06.max_restrictive.commutative", r == b.max_restrictive(a));
}

/// C06 — const vs lazy rendering (`ASN1Value::is_const_type`, generator/rasn/utils.rs): an integer literal is emitted as a
/// `const` of its fixed-width type exactly when its governing type is not the arbitrary-precision Integer (an `Integer`
/// cannot be built in a const context: those go through `LazyLock` + `Integer::from(<v>i128)`), whatever the value;
/// BOOLEAN / NULL values are always const; wrappers of supertypes and CHOICE alternatives inherit the answer.
pub fn contract_value_is_const<C: Ctx>(cx: &mut C) {
    let t = any_inttype(cx);
    let v = cx.any_i128();
    let lit = ASN1Value::LinkedIntValue { integer_type: t, value: v };
    vcover!(cx, "C06.is_const.cover_unbounded", t == IntegerType::Unbounded);
    vob!(cx, "C06.is_const.integer_literal_is_const_iff_fixed_width", lit.is_const_type() == (t != IntegerType::Unbounded));
    let b = cx.any_bool();
    vob!(cx, "C06.is_const.boolean_and_null_are_const", ASN1Value::Boolean(b).is_const_type() && ASN1Value::Null.is_const_type());
    vob!(cx, "C06.is_const.plain_integer_is_not_const", !ASN1Value::Integer(v).is_const_type());
}

const WELL_KNOWN_ROWS: &[(Option<u8>, &str, u128)] = &[
    // X.680 §32 / X.660 Annex A: top-level arcs are recognised under any root position
    (None, "itu-t", 0), (None, "iso", 1), (None, "joint-iso-itu-t", 2), (None, "joint-iso-ccitt", 2),
    // arcs below itu-t(0)
    (Some(0), "recommendation", 0), (Some(0), "question", 1), (Some(0), "administration", 2), (Some(0), "network-operator", 3),
    (Some(0), "identified-organization", 4), (Some(0), "r-recommendation", 5),
    // arcs below iso(1)
    (Some(1), "standard", 0), (Some(1), "registration-authority", 1), (Some(1), "member-body", 2), (Some(1), "identified-organization", 3),
];
const NON_TABLE_NAMES: &[&str] = &["", "itu", "ccitt", "iso-itu-t", "standards", "member", "Recommendation", "ISO", "x", "identified"];

/// C07 unit 4 — `ObjectIdentifierArc::well_known`: every table row (concrete) × root ∈ {none,0,1,2,3} (symbolic).
pub fn contract_well_known<C: Ctx>(cx: &mut C) {
    let root_sel = cx.choose(5);
    let root: Option<u8> = if root_sel == 0 { None } else { Some((root_sel - 1) as u8) };
    let mut row = 0;
    while row < WELL_KNOWN_ROWS.len() {
        cx.note("row", row);
        let (need_root, name, number) = WELL_KNOWN_ROWS[row];
        let owned = String::from(name);
        let r = ObjectIdentifierArc::well_known(Some(&owned), root);
        // "identified-organization" exists under both itu-t(0) and iso(1): a row applies iff its root matches
        let other_row_applies = row == 8 && root == Some(1) || row == 13 && root == Some(0);
        let applies = need_root.is_none() || need_root == root;
        vcover!(cx, "C07.well_known.cover_rooted_row", need_root.is_some() && applies);
        vob!(cx, "C07.well_known.row_number", !applies || r == Some(number));
        vob!(cx, "C07.well_known.only_under_its_root", applies || other_row_applies || r.is_none());
        row += 1;
    }
}

/// C07 unit 4b — names outside the table never resolve; no name never resolves.
pub fn contract_well_known_negative<C: Ctx>(cx: &mut C) {
    let root_sel = cx.choose(4);
    let root: Option<u8> = if root_sel == 0 { None } else { Some((root_sel - 1) as u8) };
    vob!(cx, "C07.well_known.no_name_is_none", ObjectIdentifierArc::well_known(None, root).is_none());
    let mut i = 0;
    while i < NON_TABLE_NAMES.len() {
        cx.note("name", i);
        let owned = String::from(NON_TABLE_NAMES[i]);
        vob!(cx, "C07.well_known.unknown_name_is_none", ObjectIdentifierArc::well_known(Some(&owned), root).is_none());
        i += 1;
    }
}

// ------------------------------------------------------------------------------------------------
// Kani harnesses (loop-free, full domain => complete proofs)
// ------------------------------------------------------------------------------------------------
#[cfg(kani)]
mod kani_harness {
    use super::*;
    #[kani::proof] fn k_c03_tagenv_add() { contract_tagenv_add(&mut KaniCtx) }
    #[kani::proof] fn k_c03_asn_tag_from() { contract_asn_tag_from(&mut KaniCtx) }
    #[kani::proof] fn k_c03_module_header_from() { contract_module_header_from(&mut KaniCtx) }
    #[kani::proof] fn k_c06_max_restrictive() { contract_max_restrictive(&mut KaniCtx) }
    #[kani::proof] fn k_c06_value_is_const() { contract_value_is_const(&mut KaniCtx) }
    #[kani::proof] #[kani::unwind(40)] fn k_c07_well_known() { contract_well_known(&mut KaniCtx) }
    #[kani::proof] #[kani::unwind(40)] fn k_c07_unknown_arc_names() { contract_well_known_negative(&mut KaniCtx) }

    /// layout sentinels: Kani 0.68 mis-lays-out types padded by i128 alignment; every type a harness
    /// iterates over must have rustc's stride.
    #[kani::proof]
    fn k_layout_sentinel_scalars() {
        let a = [TaggingEnvironment::Automatic, TaggingEnvironment::Explicit];
        assert!(&a[1] as *const _ as usize - &a[0] as *const _ as usize == core::mem::size_of::<TaggingEnvironment>());
        let b = [IntegerType::Int8, IntegerType::Unbounded];
        assert!(&b[1] as *const _ as usize - &b[0] as *const _ as usize == core::mem::size_of::<IntegerType>());
        let c = [true, false];
        assert!(&c[1] as *const _ as usize - &c[0] as *const _ as usize == 1);
    }
}

// ------------------------------------------------------------------------------------------------
// native replay dispatcher
// ------------------------------------------------------------------------------------------------
#[cfg(not(kani))]
pub fn replay(unit: &str, bytes: Option<Vec<Vec<u8>>>) -> i32 {
    use native::*;
    macro_rules! go {
        ($f:path) => {
            match bytes { Some(v) => run_bytes(unit, $f, v), None => run_grid(unit, $f, std::env::var("VERIF_REPLAY_LIMIT").ok().and_then(|s| s.parse().ok()).unwrap_or(2_000_000)) }
        };
    }
    if bytes.is_none() {
        if let Some(rc) = replay_bounded(unit) { return rc; }
    }
    match unit {
        "k_c03_tagenv_add" => go!(contract_tagenv_add),
        "k_c03_asn_tag_from" => go!(contract_asn_tag_from),
        "k_c03_module_header_from" => go!(contract_module_header_from),
        "k_c06_max_restrictive" => go!(contract_max_restrictive),
        "k_c06_value_is_const" => go!(contract_value_is_const),
        "k_c07_well_known" => go!(contract_well_known),
        "k_c07_unknown_arc_names" => go!(contract_well_known_negative),
        "k_c04_add_assign" => go!(crate::intermediate::encoding_rules::per_visible::verif_hook::contract_add_assign),
        "k_c04_range_accessors" => go!(crate::intermediate::encoding_rules::per_visible::verif_hook::contract_range_accessors),
        "k_c07_hex_to_bools" => go!(crate::lexer::verif_hook_util::contract_hex_to_bools),
        "k_c07_octet_to_bits" => go!(crate::validator::verif_hook_utils::contract_octet_to_bits),
        "k_c07_bits_to_octets" => go!(crate::validator::verif_hook_utils::contract_bits_to_octets),
        "k_c07_long_bits_to_octets" => go!(crate::validator::verif_hook_utils::contract_bits_to_octets_long),
        _ => { println!("REPLAY-ERROR unknown unit {unit}"); 2 }
    }
}

// ------------------------------------------------------------------------------------------------
// thin accessors for pub(crate) items, used by the native replay of Verus units (/verif/replay)
// ------------------------------------------------------------------------------------------------
#[cfg(not(kani))]
pub fn hook_int_type_token(min: Option<i128>, max: Option<i128>, ext: bool) -> String {
    use crate::generator::Backend;
    let backend = crate::generator::rasn::Rasn::default();
    backend.int_type_token(min, max, ext).to_string()
}

#[cfg(not(kani))]
pub fn hook_assign_enumeral_numbers(root: &[Option<i128>], additions: &[Option<i128>]) -> (Vec<i128>, Vec<i128>) {
    crate::lexer::verif_assign_enumeral_numbers(root, additions)
}

// ------------------------------------------------------------------------------------------------
// C03 — ToplevelDefinition::apply_tagging_environment: WHERE the §31.2.7 rule is applied.
// Kani: singleton component lists only (Kani 0.68 mis-strides slices of i128-padded types, DESIGN §1.2);
// natively: lists of 0..=3 components as a bounded stand-in.
// ------------------------------------------------------------------------------------------------
fn tag_with<C: Ctx>(cx: &mut C) -> (Option<AsnTag>, usize) {
    // 0 = untagged, 1 = no keyword, 2 = IMPLICIT, 3 = EXPLICIT
    let k = cx.choose(4);
    let t = match k {
        0 => None,
        1 => Some(AsnTag { environment: TaggingEnvironment::Automatic, tag_class: TagClass::ContextSpecific, id: 1 }),
        2 => Some(AsnTag { environment: TaggingEnvironment::Implicit, tag_class: TagClass::Private, id: 2 }),
        _ => Some(AsnTag { environment: TaggingEnvironment::Explicit, tag_class: TagClass::Application, id: 3 }),
    };
    (t, k)
}
/// what §31.2.7 makes of a tag written with keyword-state `k` in a module whose default is `env`
fn expected_env(env: TaggingEnvironment, k: usize) -> TaggingEnvironment {
    match k { 2 => TaggingEnvironment::Implicit, 3 => TaggingEnvironment::Explicit, _ => env }
}
fn tag_ok(t: &Option<AsnTag>, k: usize, env: TaggingEnvironment) -> bool {
    match (t, k) {
        (None, 0) => true,
        (Some(t), 1) => t.environment == expected_env(env, 1) && t.tag_class == TagClass::ContextSpecific && t.id == 1,
        (Some(t), 2) => t.environment == TaggingEnvironment::Implicit && t.tag_class == TagClass::Private && t.id == 2,
        (Some(t), 3) => t.environment == TaggingEnvironment::Explicit && t.tag_class == TagClass::Application && t.id == 3,
        _ => false,
    }
}

pub fn contract_apply_tagenv<C: Ctx>(cx: &mut C, max_len: usize) {
    use crate::intermediate::types::*;
    let env = any_tagenv(cx);
    let kind = cx.choose(4); // 0 SEQUENCE, 1 SET, 2 CHOICE, 3 primitive
    let (top_tag, top_k) = tag_with(cx);
    let n = cx.choose(max_len + 1);
    let mut ks = [0usize; 4];
    let ty = match kind {
        0 | 1 => {
            let mut members = Vec::new();
            let mut i = 0;
            while i < n {
                let (t, k) = tag_with(cx);
                ks[i] = k;
                members.push(SequenceOrSetMember { name: String::new(), tag: t, ty: ASN1Type::Null, optionality: Optionality::Required, is_recursive: false, constraints: Vec::new() });
                i += 1;
            }
            let s = SequenceOrSet { components_of: Vec::new(), extensible: None, constraints: Vec::new(), members };
            if kind == 0 { ASN1Type::Sequence(s) } else { ASN1Type::Set(s) }
        }
        2 => {
            let mut options = Vec::new();
            let mut i = 0;
            while i < n {
                let (t, k) = tag_with(cx);
                ks[i] = k;
                options.push(ChoiceOption { name: String::new(), tag: t, ty: ASN1Type::Null, constraints: Vec::new(), is_recursive: false });
                i += 1;
            }
            ASN1Type::Choice(Choice { extensible: None, options, constraints: Vec::new() })
        }
        _ => ASN1Type::Null,
    };
    // "this holds at every nesting depth": optionally the first component is an anonymous SEQUENCE { x <tag> NULL } or a
    // SEQUENCE OF <tag> CHOICE { y <tag> NULL }
    let nesting = if max_len > 1 && n > 0 && kind < 3 { cx.choose(3) } else { 0 };
    let (mut k_inner, mut k_elem) = (0usize, 0usize);
    let ty = if nesting == 0 { ty } else {
        let (t_inner, ki) = tag_with(cx);
        k_inner = ki;
        let inner_member = SequenceOrSetMember { name: String::new(), tag: t_inner.clone(), ty: ASN1Type::Null, optionality: Optionality::Required, is_recursive: false, constraints: Vec::new() };
        let replacement = if nesting == 1 {
            ASN1Type::Sequence(SequenceOrSet { components_of: Vec::new(), extensible: None, constraints: Vec::new(), members: vec![inner_member] })
        } else {
            let (t_elem, ke) = tag_with(cx);
            k_elem = ke;
            ASN1Type::SequenceOf(SequenceOrSetOf { constraints: Vec::new(), element_tag: t_elem, is_recursive: false,
                element_type: Box::new(ASN1Type::Choice(Choice { extensible: None, constraints: Vec::new(), options: vec![ChoiceOption { name: String::new(), tag: t_inner, ty: ASN1Type::Null, constraints: Vec::new(), is_recursive: false }] })) })
        };
        match ty {
            ASN1Type::Sequence(mut s) => { s.members[0].ty = replacement; ASN1Type::Sequence(s) }
            ASN1Type::Set(mut s) => { s.members[0].ty = replacement; ASN1Type::Set(s) }
            ASN1Type::Choice(mut c) => { c.options[0].ty = replacement; ASN1Type::Choice(c) }
            other => other,
        }
    };
    cx.describe(|| format!("module_default={env:?} kind={} components={n} first_component={}", ["SEQUENCE", "SET", "CHOICE", "primitive"][kind],
        ["plain", "anonymous SEQUENCE { x [tag?] NULL }", "SEQUENCE OF [tag?] CHOICE { y [tag?] NULL }"][nesting]));
    let mut tld = ToplevelDefinition::Type(ToplevelTypeDefinition { comments: String::new(), tag: top_tag, name: String::new(), ty, parameterization: None, module_header: None });
    tld.apply_tagging_environment(&env);
    if let ToplevelDefinition::Type(t) = &tld {
        if nesting > 0 {
            let first = match &t.ty { ASN1Type::Sequence(s) | ASN1Type::Set(s) => s.members.first().map(|m| &m.ty), ASN1Type::Choice(c) => c.options.first().map(|o| &o.ty), _ => None };
            match first {
                Some(ASN1Type::Sequence(inner)) => { vob!(cx, "C03.apply_tagenv.component_of_anonymous_nested_type", inner.members.len() == 1 && tag_ok(&inner.members[0].tag, k_inner, env)); }
                Some(ASN1Type::SequenceOf(of)) => {
                    vob!(cx, "C03.apply_tagenv.sequence_of_element_tag", tag_ok(&of.element_tag, k_elem, env));
                    vob!(cx, "C03.apply_tagenv.alternative_of_anonymous_element_type", matches!(&*of.element_type, ASN1Type::Choice(c) if c.options.len() == 1 && tag_ok(&c.options[0].tag, k_inner, env)));
                }
                _ => { vob!(cx, "C03.apply_tagenv.nested_type_kept", false); }
            }
        }
        vob!(cx, "C03.apply_tagenv.type_assignment_tag", tag_ok(&t.tag, top_k, env));
        match &t.ty {
            ASN1Type::Sequence(s) | ASN1Type::Set(s) => {
                vob!(cx, "C03.apply_tagenv.no_component_lost", s.members.len() == n);
                let mut i = 0;
                while i < n && i < s.members.len() {
                    cx.note("component", i);
                    vob!(cx, "C03.apply_tagenv.sequence_and_set_component_tags", tag_ok(&s.members[i].tag, ks[i], env));
                    i += 1;
                }
            }
            ASN1Type::Choice(c) => {
                vob!(cx, "C03.apply_tagenv.no_alternative_lost", c.options.len() == n);
                let mut i = 0;
                while i < n && i < c.options.len() {
                    cx.note("alternative", i);
                    vob!(cx, "C03.apply_tagenv.choice_alternative_tags", tag_ok(&c.options[i].tag, ks[i], env));
                    i += 1;
                }
            }
            _ => {}
        }
    } else {
        vob!(cx, "C03.apply_tagenv.stays_a_type_definition", false);
    }
}
pub fn contract_apply_tagenv_singleton<C: Ctx>(cx: &mut C) { contract_apply_tagenv(cx, 1) }

/// Kani-sized variant: the STRUCTURE is concrete (one SEQUENCE / SET / CHOICE with exactly one component — singleton
/// lists, so the slice-stride defect of Kani 0.68 cannot bite), only the scalars are symbolic: module default and the
/// keyword state of the two tags.
pub fn contract_apply_tagenv_concrete<C: Ctx>(cx: &mut C, kind: usize) {
    use crate::intermediate::types::*;
    let env = any_tagenv(cx);
    let (top_tag, top_k) = tag_with(cx);
    let (t, k) = tag_with(cx);
    let ty = match kind {
        0 | 1 => {
            let s = SequenceOrSet { components_of: Vec::new(), extensible: None, constraints: Vec::new(), members: vec![SequenceOrSetMember { name: String::new(), tag: t, ty: ASN1Type::Null, optionality: Optionality::Required, is_recursive: false, constraints: Vec::new() }] };
            if kind == 0 { ASN1Type::Sequence(s) } else { ASN1Type::Set(s) }
        }
        _ => ASN1Type::Choice(Choice { extensible: None, constraints: Vec::new(), options: vec![ChoiceOption { name: String::new(), tag: t, ty: ASN1Type::Null, constraints: Vec::new(), is_recursive: false }] }),
    };
    let mut tld = ToplevelDefinition::Type(ToplevelTypeDefinition { comments: String::new(), tag: top_tag, name: String::new(), ty, parameterization: None, module_header: None });
    tld.apply_tagging_environment(&env);
    if let ToplevelDefinition::Type(tdef) = &tld {
        vob!(cx, "C03.apply_tagenv_k.type_assignment_tag", tag_ok(&tdef.tag, top_k, env));
        match &tdef.ty {
            ASN1Type::Sequence(s) | ASN1Type::Set(s) => { vob!(cx, "C03.apply_tagenv_k.component_tag", s.members.len() == 1 && tag_ok(&s.members[0].tag, k, env)); }
            ASN1Type::Choice(c) => { vob!(cx, "C03.apply_tagenv_k.alternative_tag", c.options.len() == 1 && tag_ok(&c.options[0].tag, k, env)); }
            _ => { vob!(cx, "C03.apply_tagenv_k.kind_kept", false); }
        }
    }
}
pub fn contract_apply_tagenv_lists<C: Ctx>(cx: &mut C) { contract_apply_tagenv(cx, 3) }

// ------------------------------------------------------------------------------------------------
// C07 — named-bit lists: `ASN1Value::link_with_type` on `BitStringNamedBits` against a BIT STRING with named bits
// (-> bit_string_value_from_named_bits).  Bounded stand-in (native): up to 3 named bits numbered from 0..=5.
// ------------------------------------------------------------------------------------------------
pub fn contract_named_bits<C: Ctx>(cx: &mut C) {
    use crate::intermediate::types::*;
    const NAMES: [&str; 3] = ["a", "b", "c"];
    let n = 1 + cx.choose(3);
    let mut numbers = [0i128; 3];
    let mut i = 0;
    while i < n {
        numbers[i] = cx.choose(6) as i128;
        i += 1;
    }
    // named bits must carry distinct numbers (X.680 §22.4)
    let distinct = (n < 2 || numbers[0] != numbers[1]) && (n < 3 || (numbers[0] != numbers[2] && numbers[1] != numbers[2]));
    if !cx.assume(distinct) { return; }
    let mut listed = [false; 3];
    let mut i = 0;
    while i < n { listed[i] = cx.any_bool(); i += 1; }
    let distinguished: Vec<DistinguishedValue> = (0..n).map(|i| DistinguishedValue { name: NAMES[i].into(), value: numbers[i] }).collect();
    let names: Vec<String> = (0..n).filter(|i| listed[*i]).map(|i| NAMES[i].to_string()).collect();
    let ty = ASN1Type::BitString(BitString { constraints: Vec::new(), distinguished_values: Some(distinguished) });
    let mut v = ASN1Value::BitStringNamedBits(names);
    let tlds = std::collections::BTreeMap::new();
    let r = v.link_with_type(&tlds, &ty, None);
    vob!(cx, "C07.named_bits.links", r.is_ok());
    let highest = (0..n).map(|i| numbers[i]).max().unwrap_or(0);
    match &v {
        ASN1Value::BitString(bits) => {
            vob!(cx, "C07.named_bits.length_is_highest_bit_plus_one", bits.len() as i128 == highest + 1);
            let mut ok = true;
            for (pos, b) in bits.iter().enumerate() {
                let want = (0..n).any(|i| listed[i] && numbers[i] == pos as i128);
                ok = ok && *b == want;
            }
            vob!(cx, "C07.named_bits.bit_set_iff_its_name_is_listed", ok);
        }
        _ => { vob!(cx, "C07.named_bits.becomes_a_bit_string", false); }
    }
}

// (Kani harnesses k_c03_apply_tagenv_{sequence1,set1,choice1} over contract_apply_tagenv_concrete — concrete structure,
//  symbolic scalars only — did not finish in 10 min either after apply_tagging_environment became recursive: CBMC keeps
//  unwinding the recursion over the ASN1Type union.  They are not registered.)
// (A Kani harness over contract_apply_tagenv_singleton did not finish in 15 min — symbolic choice between the
//  ASN1Type variants makes CBMC stall in the nested-union layout, DESIGN §1.2 — so this contract runs as a
//  native bounded stand-in only.)

#[cfg(not(kani))]
pub use crate::intermediate::encoding_rules::per_visible::verif_hook::{hook_compare_optional, hook_default_unsigned, hook_fold_constraint_set, hook_range_from_constraint, hook_range_from_element, hook_intersect_single_and_range, hook_union_optional, hook_union_single_and_range};
pub fn hook_needs_unnesting(ty: &ASN1Type) -> bool { crate::generator::rasn::Rasn::needs_unnesting(ty) }
#[cfg(not(kani))]
pub fn hook_fixed_size(bits: bool, constraints: Vec<crate::intermediate::constraints::Constraint>) -> Option<usize> {
    use crate::intermediate::types::*;
    if bits { BitString { constraints, distinguished_values: None }.fixed_size() } else { OctetString { constraints }.fixed_size() }
}
#[cfg(not(kani))]
pub fn hook_link_constraints(constraints: Vec<crate::intermediate::constraints::Constraint>, tlds: &std::collections::BTreeMap<String, crate::intermediate::ToplevelDefinition>) -> Result<Vec<crate::intermediate::constraints::Constraint>, crate::intermediate::error::GrammarError> {
    use crate::intermediate::{types::*, *};
    // a BOOLEAN carrying the constraints: ASN1Type::link_constraint_reference hands each of them to Constraint::link_cross_reference
    let mut tld = ToplevelDefinition::Type(ToplevelTypeDefinition { comments: String::new(), tag: None, name: "Holder".into(), ty: ASN1Type::Boolean(Boolean { constraints }), parameterization: None, module_header: None });
    tld.link_constraint_reference(tlds)?;
    match tld { ToplevelDefinition::Type(ToplevelTypeDefinition { ty: ASN1Type::Boolean(b), .. }) => Ok(b.constraints), _ => unreachable!() }
}
/// generate one type assignment `T ::= <ty>` (optionally tagged) in a module with the given defaults; returns the bindings text
#[cfg(not(kani))]
pub fn hook_generate_type(env: crate::intermediate::TaggingEnvironment, implied: bool, ty: &ASN1Type, tag: Option<AsnTag>) -> Result<String, String> {
    use crate::generator::Backend;
    use std::{cell::RefCell, rc::Rc};
    let h = Rc::new(RefCell::new(ModuleHeader { name: "M".into(), module_identifier: None, encoding_reference_default: None, tagging_environment: env,
        extensibility_environment: if implied { ExtensibilityEnvironment::Implied } else { ExtensibilityEnvironment::Explicit }, imports: vec![], exports: None }));
    let tld = ToplevelDefinition::Type(ToplevelTypeDefinition { comments: String::new(), tag, name: "T".into(), ty: ty.clone(), parameterization: None, module_header: Some(h) });
    let mut backend = crate::generator::rasn::Rasn::default();
    match backend.generate_module(vec![tld]) { Ok(m) if m.warnings.is_empty() => Ok(m.generated.unwrap_or_default()), Ok(m) => Err(format!("warnings: {:?}", m.warnings.iter().map(|w| w.to_string()).collect::<Vec<_>>())), Err(e) => Err(format!("{e:?}")) }
}
/// accessor for the native replay of unit GEN_module: ONE backend object generates two modules in a row (each a single `T ::= SEQUENCE { f0 BOOLEAN }`),
/// the first with defaults `first`, the second with defaults `second` = (tagging default, EXTENSIBILITY IMPLIED); returns the text of the SECOND module
#[cfg(not(kani))]
pub fn hook_generate_two_modules(first: (crate::intermediate::TaggingEnvironment, bool), second: (crate::intermediate::TaggingEnvironment, bool)) -> Result<String, String> {
    use crate::generator::Backend;
    use std::{cell::RefCell, rc::Rc};
    let mut backend = crate::generator::rasn::Rasn::default();
    let mut last = Err("no module generated".to_string());
    for (i, (env, implied)) in [first, second].into_iter().enumerate() {
        let h = Rc::new(RefCell::new(ModuleHeader { name: format!("M{i}"), module_identifier: None, encoding_reference_default: None, tagging_environment: env,
            extensibility_environment: if implied { ExtensibilityEnvironment::Implied } else { ExtensibilityEnvironment::Explicit }, imports: vec![], exports: None }));
        let ty = ASN1Type::Sequence(crate::intermediate::types::SequenceOrSet { components_of: vec![], extensible: None, constraints: vec![], members: vec![crate::intermediate::types::SequenceOrSetMember {
            name: "f0".into(), tag: None, ty: ASN1Type::Boolean(crate::intermediate::types::Boolean { constraints: vec![] }), optionality: crate::intermediate::types::Optionality::Required, is_recursive: false, constraints: vec![] }] });
        let tld = ToplevelDefinition::Type(ToplevelTypeDefinition { comments: String::new(), tag: None, name: "T".into(), ty, parameterization: None, module_header: Some(h) });
        last = match backend.generate_module(vec![tld]) { Ok(m) if m.warnings.is_empty() => Ok(m.generated.unwrap_or_default()), Ok(m) => Err(format!("warnings: {:?}", m.warnings.iter().map(|w| w.to_string()).collect::<Vec<_>>())), Err(e) => Err(format!("{e:?}")) };
    }
    last
}
/// accessors for the native replay of the Verus unit GEN_members (token text as proc_macro2 prints it)
#[cfg(not(kani))]
pub fn hook_format_sequence_member(m: &crate::intermediate::types::SequenceOrSetMember, parent: &str, ext: &str) -> Result<(String, String), String> {
    let ext: proc_macro2::TokenStream = ext.parse().unwrap();
    crate::generator::rasn::Rasn::default().format_sequence_member(m, parent, ext).map(|(d, nt)| (d.to_string(), format!("{nt:?}"))).map_err(|e| format!("{e:?}"))
}
#[cfg(not(kani))]
pub fn hook_format_choice_option(o: &crate::intermediate::types::ChoiceOption, parent: &str, ext: &str) -> Result<String, String> {
    let ext: proc_macro2::TokenStream = ext.parse().unwrap();
    let g = crate::generator::rasn::Rasn::default();
    let name = g.to_rust_enum_identifier(&o.name);
    g.format_choice_option(name, o, parent, ext).map(|d| d.to_string()).map_err(|e| format!("{e:?}"))
}
/// accessors for the native replay of format_sequence_or_set_members / format_choice_options (unit GEN_members): struct / enum body,
/// (constructor argument name, type) pairs, hoisted items — token text as proc_macro2 prints it
#[cfg(not(kani))]
pub fn hook_format_sequence_or_set_members(s: &crate::intermediate::types::SequenceOrSet, parent: &str) -> Result<(String, Vec<String>, Vec<String>), String> {
    crate::generator::rasn::Rasn::default().format_sequence_or_set_members(s, parent)
        .map(|f| (f.struct_body.to_string(), f.name_types.iter().map(|nt| format!("{nt:?}")).collect(), f.nested_anonymous_types.iter().map(|t| t.to_string()).collect())).map_err(|e| format!("{e:?}"))
}
#[cfg(not(kani))]
pub fn hook_format_choice_options(c: &crate::intermediate::types::Choice, parent: &str) -> Result<(String, Vec<String>), String> {
    crate::generator::rasn::Rasn::default().format_choice_options(c, parent)
        .map(|f| (f.enum_body.to_string(), f.nested_anonymous_types.iter().map(|t| t.to_string()).collect())).map_err(|e| format!("{e:?}"))
}
/// accessor for the native replay of generate_integer_value (unit GEN_values): the constant of `name <type> ::= v` as tagged by the linker
#[cfg(not(kani))]
pub fn hook_generate_integer_value(name: &str, associated_type: &ASN1Type, integer_type: crate::intermediate::IntegerType, v: i128) -> Result<String, String> {
    let mut tld = ToplevelValueDefinition::from((name, ASN1Value::LinkedIntValue { integer_type, value: v }, associated_type.clone()));
    tld.comments = String::new();
    crate::generator::rasn::Rasn::default().generate_integer_value(tld).map(|t| t.to_string()).map_err(|e| format!("{e:?}"))
}
/// accessor for the native replay of generate_tld (unit GEN_dispatch): a module holding one INTEGER value assignment, generated through generate_module
#[cfg(not(kani))]
pub fn hook_generate_value_tld(name: &str, v: i128) -> Result<String, String> {
    use crate::generator::Backend;
    use std::{cell::RefCell, rc::Rc};
    let h = Rc::new(RefCell::new(ModuleHeader { name: "M".into(), module_identifier: None, encoding_reference_default: None, tagging_environment: crate::intermediate::TaggingEnvironment::Automatic,
        extensibility_environment: ExtensibilityEnvironment::Explicit, imports: vec![], exports: None }));
    let mut tld = ToplevelValueDefinition::from((name, ASN1Value::LinkedIntValue { integer_type: crate::intermediate::IntegerType::Uint8, value: v }, ASN1Type::Integer(crate::intermediate::types::Integer { constraints: vec![], distinguished_values: None })));
    tld.module_header = Some(h);
    let mut backend = crate::generator::rasn::Rasn::default();
    match backend.generate_module(vec![ToplevelDefinition::Value(tld)]) { Ok(m) if m.warnings.is_empty() => Ok(m.generated.unwrap_or_default()), Ok(m) => Err(format!("warnings: {:?}", m.warnings.iter().map(|w| w.to_string()).collect::<Vec<_>>())), Err(e) => Err(format!("{e:?}")) }
}
/// accessor for the native replay of format_identifier_annotation (unit GEN_emission)
#[cfg(not(kani))]
pub fn hook_identifier_annotation(name: &str, comments: &str, ty: &ASN1Type) -> String { crate::generator::rasn::Rasn::default().format_identifier_annotation(name, comments, ty).to_string() }
/// accessor for the native replay of type_to_tokens (unit GEN_type_table)
#[cfg(not(kani))]
pub fn hook_type_to_tokens(ty: &ASN1Type) -> Result<String, String> { crate::generator::rasn::Rasn::default().type_to_tokens(ty).map(|t| t.to_string()).map_err(|e| format!("{e:?}")) }
/// accessor for the native replay of unit GEN_values: Rasn::value_to_tokens, token text as proc_macro2 prints it
#[cfg(not(kani))]
pub fn hook_value_to_tokens(v: &crate::intermediate::ASN1Value, type_name: Option<&str>) -> Result<String, String> {
    let tn: Option<proc_macro2::TokenStream> = type_name.map(|t| t.parse().unwrap());
    crate::generator::rasn::Rasn::default().value_to_tokens(v, tn.as_ref()).map(|t| t.to_string()).map_err(|e| format!("{e:?}"))
}
#[cfg(not(kani))]
pub fn hook_title_case(name: &str) -> String { crate::generator::rasn::Rasn::default().to_rust_title_case(name).to_string() }
#[cfg(not(kani))]
pub fn hook_const_case(name: &str) -> String { crate::generator::rasn::Rasn::default().to_rust_const_case(name).to_string() }
#[cfg(not(kani))]
pub fn hook_inner_name(name: &str, parent: &str) -> String { crate::generator::rasn::Rasn::default().inner_name(name, parent).to_string() }
#[cfg(not(kani))]
pub fn hook_snake(name: &str) -> String { crate::generator::rasn::Rasn::default().to_rust_snake_case(name).to_string() }
#[cfg(not(kani))]
pub fn hook_type_table(ty: &ASN1Type, name: &str, parent: &str, rec: bool) -> Result<String, String> {
    crate::generator::rasn::Rasn::default().constraints_and_type_name(ty, name, parent, rec).map(|(_, t)| t.to_string()).map_err(|e| format!("{e:?}"))
}
#[cfg(not(kani))]
pub fn hook_format_default_methods(members: &Vec<crate::intermediate::types::SequenceOrSetMember>, parent: &str) -> Result<String, String> {
    crate::generator::rasn::Rasn::default().format_default_methods(members, parent).map(|t| t.to_string()).map_err(|e| format!("{e:?}"))
}
#[cfg(not(kani))]
pub fn hook_default_method_name(parent: &str, field: &str) -> String { crate::generator::rasn::Rasn::default().default_method_name(parent, field).to_string() }
/// accessors for the native replay of the Verus unit GEN_enum_members
#[cfg(not(kani))]
pub fn hook_format_enum_members(e: &crate::intermediate::types::Enumerated) -> Result<String, String> { crate::generator::rasn::Rasn::default().format_enum_members(e).map(|t| t.to_string()).map_err(|e| format!("{e:?}")) }
#[cfg(not(kani))]
pub fn hook_enum_identifier(name: &str) -> String { crate::generator::rasn::Rasn::default().to_rust_enum_identifier(name).to_string() }
/// accessors for the native replay of the Verus unit GEN_emission (token text, white-space as proc_macro2 prints it)
#[cfg(not(kani))]
pub fn hook_format_tag(tag: Option<&AsnTag>) -> String { crate::generator::rasn::Rasn::default().format_tag(tag).to_string() }
#[cfg(not(kani))]
pub fn hook_width_tokens(t: crate::intermediate::IntegerType) -> String { use quote::ToTokens; let mut ts = proc_macro2::TokenStream::new(); t.to_tokens(&mut ts); ts.to_string() }
#[cfg(not(kani))]
pub fn hook_format_range_annotations(signed: bool, constraints: &[crate::intermediate::constraints::Constraint]) -> Result<String, String> {
    crate::generator::rasn::Rasn::default().format_range_annotations(signed, constraints).map(|t| t.to_string()).map_err(|e| format!("{e:?}"))
}
/// (min, max, extensible, is_size) of the range per_visible_range_constraints folds from a constraint list
#[cfg(not(kani))]
pub fn hook_per_visible_range(signed: bool, constraints: &[crate::intermediate::constraints::Constraint]) -> Result<(Option<i128>, Option<i128>, bool, bool), String> {
    crate::intermediate::encoding_rules::per_visible::per_visible_range_constraints(signed, constraints)
        .map(|c| (c.min::<i128>(), c.max::<i128>(), c.is_extensible(), c.is_size_constraint())).map_err(|e| format!("{e:?}"))
}
pub fn hook_type_is_const(ty: &ASN1Type) -> bool { ty.is_const_type() }
pub fn hook_type_has_reference(ty: &ASN1Type) -> bool { ty.contains_constraint_reference() }
pub fn hook_is_elsewhere_declared(v: &ASN1Value) -> bool { v.is_elsewhere_declared() }
pub fn hook_named_lookup(tld: &crate::intermediate::ToplevelDefinition, type_name: Option<&String>, identifier: &String) -> Option<ASN1Value> { tld.get_distinguished_or_enum_value(type_name, identifier) }
pub fn hook_has_enum_value(tld: &crate::intermediate::ToplevelDefinition, type_name: Option<&String>, identifier: &String) -> bool { tld.has_enum_value(type_name, identifier) }
pub fn hook_apply_tagenv_type(ty: &mut ASN1Type, env: &crate::intermediate::TaggingEnvironment) { ty.apply_tagging_environment(env) }
pub fn hook_apply_tagenv_tld(tld: &mut crate::intermediate::ToplevelDefinition, env: &crate::intermediate::TaggingEnvironment) { tld.apply_tagging_environment(env) }
pub fn hook_tagenv_add(a: &crate::intermediate::TaggingEnvironment, b: &crate::intermediate::TaggingEnvironment) -> crate::intermediate::TaggingEnvironment { a + b }

#[cfg(not(kani))]
pub fn replay_bounded(unit: &str) -> Option<i32> {
    use native::*;
    let limit = std::env::var("VERIF_REPLAY_LIMIT").ok().and_then(|s| s.parse().ok()).unwrap_or(2_000_000);
    Some(match unit {
        "b_c03_apply_tagenv_lists" => run_grid(unit, contract_apply_tagenv_lists, limit),
        "b_c07_named_bits" => run_grid(unit, contract_named_bits, limit),
        "b_generate_constructed" => run_grid(unit, contract_generate_constructed, limit),
        "b_c04_component_bounds" => run_grid(unit, contract_generate_component_bounds, limit),
        "b_generate_enumerated" => run_grid(unit, contract_generate_enumerated, limit),
        "b_c05_extension_group" => run_grid(unit, contract_generate_extension_group, limit),
        "b_c04_assignment_bounds" => run_grid(unit, contract_generate_assignment_bounds, limit),
        "b_c07_pipeline_values" => run_grid(unit, contract_pipeline_value_assignments, limit),
        "b_c03_tag_parser" => run_grid(unit, contract_tag_parser, limit),
        "b_choice_and_set_parser" => run_grid(unit, contract_choice_and_set_parser, limit),
        "b_c04_fixed_size" => run_grid(unit, contract_fixed_size, limit),
        "b_c07_value_rendering" => run_grid(unit, contract_value_rendering, limit),
        "b_c05_nested_enumerated" => run_grid(unit, contract_generate_nested_enumerated, limit),
        "b_c02_components_of_import" => run_grid(unit, contract_components_of_import, limit),
        "b_c02_components_of_placement" => run_grid(unit, contract_components_of_placement, limit),
        "b_c03_member_tag_classes" => run_grid(unit, contract_member_tag_classes, limit),
        "b_c06_pipeline_defaults" => run_grid(unit, contract_pipeline_integer_defaults, limit),
        "b_c03_pipeline_tag_matrix" => run_grid(unit, contract_pipeline_tag_matrix, limit),
        "b_c06_pipeline_widths" => run_grid(unit, contract_pipeline_integer_widths, limit),
        "b_c04_pipeline_references" => run_grid(unit, contract_pipeline_bound_references, limit),
        "b_c02_pipeline_recursion" => run_grid(unit, contract_pipeline_recursion, limit),
        "b_c02_pipeline_type_shapes" => run_grid(unit, contract_pipeline_type_shapes_quick, limit),
        "b_c02_pipeline_type_shapes_full" => run_grid(unit, contract_pipeline_type_shapes_full, limit),
        "b_c04_pipeline_set_expressions" => run_grid(unit, contract_pipeline_set_expressions, limit),
        "b_c05_pipeline_extensibility" => run_grid(unit, contract_pipeline_extensibility, limit),
        "b_c14_pipeline_enumerated" => run_grid(unit, contract_pipeline_enumerated_quick, limit),
        "b_c14_pipeline_enumerated_full" => run_grid(unit, contract_pipeline_enumerated_full, limit),
        "b_c02_parameterized_components" => run_grid(unit, contract_parameterized_components, limit),
        "b_pipeline_cases" => run_grid(unit, cases::contract_pipeline_cases, limit),
        "b_c14_large_numbers" => run_grid(unit, contract_enumerated_large_numbers, limit),
        "b_c02_nested_collections" => run_grid(unit, contract_generate_nested_collections, limit),
        "b_c03_tagged_assignment" => run_grid(unit, contract_generate_tagged_assignment, limit),
        "b_c06_literal_rendering" => run_grid(unit, contract_literal_rendering, limit),
        "b_c07_array_value" => run_grid(unit, contract_array_value_keeps_all_elements, limit),
        "b_c07_defaults_linked" => run_grid(unit, contract_defaults_linked_at_every_position, limit),
        "b_c04_contained_subtype" => run_grid(unit, contract_contained_subtype_in_set_expression, limit),
        "b_c04_own_named_number" => run_grid(unit, contract_own_named_number, limit),
        "b_c02_validator_passes" => run_grid(unit, contract_validator_marks_recursion_despite_warnings, limit),
        "b_c03_pipeline_tagging" => run_grid(unit, contract_pipeline_tagging_default_of_the_defining_module, limit),
        "b_c03_format_tag" => run_grid(unit, contract_format_tag, limit),
        "b_c06_generate_integer_assignment" => run_grid(unit, contract_generate_integer_assignment, limit),
        "b_c07_named_value_resolution" => run_grid(unit, contract_named_value_resolution, limit),
        "b_c06_literal_width" => run_grid(unit, contract_literal_width, limit),
        "b_c04_named_number_via_reference" => run_grid(unit, contract_named_number_through_reference, limit),
        "b_c04_string_component_size" => run_grid(unit, contract_generate_string_component_size, limit),
        "b_c07_format_oid" => run_grid(unit, contract_format_oid, limit),
        "b_module_header_parser" => run_grid(unit, contract_module_header_parser, limit),
        "b_c04_constraint_parser" => run_grid(unit, contract_constraint_parser, limit),
        "b_c07_cstring_parser" => run_grid(unit, contract_cstring_parser, limit),
        "b_c07_bitstring_literal_parser" => run_grid(unit, contract_bitstring_literal_parser, limit),
        "b_c03_element_tag" => run_grid(unit, contract_generate_element_tag, limit),
        "b_resolve_class_reference_frame" => run_grid(unit, contract_resolve_class_reference_frame, limit),
        "b_c02_component_types" => run_grid(unit, contract_generate_component_types, limit),
        "b_c06_int_type_serial" => run_grid(unit, contract_int_type_serial, limit),
        "b_sequence_parser" => run_grid(unit, crate::lexer::verif_hook_sequence::contract_sequence_parser, limit),
        "b_c07_struct_value_defaults" => run_grid(unit, contract_struct_value_defaults, limit),
        "b_c04_named_number_lookup" => run_grid(unit, crate::validator::verif_hook_utils::contract_named_number_lookup, limit),
        "b_c02_recursion_marking" => run_grid(unit, contract_recursion_marking, limit),
        "b_c04_value_references" => run_grid(unit, contract_constraint_value_references, limit),
        "b_c04_integer_set_expression" => run_grid(unit, contract_integer_set_expression, limit),
        "b_c14_enumerated_parser" => run_grid(unit, crate::lexer::verif_hook_enumerated::contract_enumerated_parser_quick, limit),
        "b_c14_enumerated_parser_full" => run_grid(unit, crate::lexer::verif_hook_enumerated::contract_enumerated_parser_full, limit),
        _ => return None,
    })
}

// ------------------------------------------------------------------------------------------------
// C04 — folding of set expressions over INTEGER values to the PER-visible effective range
// (per_visible.rs: TryFrom<&Constraint> for PerVisibleRangeConstraints -> fold_constraint_set,
//  intersect_single_and_range, union_single_and_range, compare_optional_asn1values).
// Bounded stand-in (native): expressions `a op1 (b op2 c)` / `a op b` / `a` — the only shapes the IR has — with
// operands single value or range (ends literal or MIN/MAX) over a 7-point alphabet, operators | ^ EXCEPT.
// ------------------------------------------------------------------------------------------------
pub const C04_POINTS: [i128; 7] = [-129, -1, 0, 1, 5, 255, 256];
#[derive(Clone, Copy)]
struct Iv { lo: Option<i128>, hi: Option<i128> }   // None = unbounded (MIN / MAX)
impl Iv {
    fn contains(&self, v: i128) -> bool { self.lo.map_or(true, |l| l <= v) && self.hi.map_or(true, |h| v <= h) }
    fn is_empty(&self) -> bool { matches!((self.lo, self.hi), (Some(l), Some(h)) if l > h) }
}
fn any_operand<C: Ctx>(cx: &mut C) -> (crate::intermediate::constraints::SubtypeElements, Iv) {
    use crate::intermediate::constraints::SubtypeElements;
    if cx.any_bool() {
        let v = C04_POINTS[cx.choose(7)];
        (SubtypeElements::SingleValue { value: ASN1Value::Integer(v), extensible: false }, Iv { lo: Some(v), hi: Some(v) })
    } else {
        let l = cx.choose(8);
        let h = cx.choose(8);
        let lo = if l == 7 { None } else { Some(C04_POINTS[l]) };
        let hi = if h == 7 { None } else { Some(C04_POINTS[h]) };
        (SubtypeElements::ValueRange { min: lo.map(ASN1Value::Integer), max: hi.map(ASN1Value::Integer), extensible: false }, Iv { lo, hi })
    }
}
pub fn contract_integer_set_expression<C: Ctx>(cx: &mut C) {
    use crate::intermediate::constraints::*;
    use crate::intermediate::encoding_rules::per_visible::PerVisibleRangeConstraints;
    let n = 1 + cx.choose(3);
    let (a, ia) = any_operand(cx);
    if !cx.assume(!ia.is_empty()) { return; }
    let ops = [SetOperator::Union, SetOperator::Intersection, SetOperator::Except];
    // true value set (membership) and reference PER-visible range (X.691 §10.3.21) of the expression
    let set: ElementOrSetOperation;
    let reference: Iv;
    let member: Box<dyn Fn(i128) -> bool>;
    if n == 1 {
        set = ElementOrSetOperation::Element(a);
        reference = ia;
        member = Box::new(move |v| ia.contains(v));
    } else {
        let o1 = cx.choose(3);
        let (b, ib) = any_operand(cx);
        if !cx.assume(!ib.is_empty()) { return; }
        // X.680 clause 50: EXCEPT binds tighter than INTERSECTION, INTERSECTION tighter than UNION; the lexer nests the
        // chain to the right, so the TREE is a o1 (b o2 c) while the MEANING is (a o1 b) o2 c when o1 binds tighter
        let prec = |o: usize| match o { 0 => 0, 1 => 1, _ => 2 };
        let apply = |o: usize, l: bool, r: bool| match o { 0 => l || r, 1 => l && r, _ => l && !r };
        let rest: ElementOrSetOperation;
        if n == 2 {
            rest = ElementOrSetOperation::Element(b);
            reference = combine(ia, ib, o1);
            member = Box::new(move |v| apply(o1, ia.contains(v), ib.contains(v)));
        } else {
            let o2 = cx.choose(3);
            let (c, ic) = any_operand(cx);
            if !cx.assume(!ic.is_empty()) { return; }
            rest = ElementOrSetOperation::SetOperation(SetOperation { base: b, operator: ops[o2].clone(), operant: Box::new(ElementOrSetOperation::Element(c)) });
            if prec(o1) > prec(o2) {
                let left = combine(ia, ib, o1);
                if !cx.assume(!left.is_empty()) { return; }
                reference = combine(left, ic, o2);
                member = Box::new(move |v| apply(o2, apply(o1, ia.contains(v), ib.contains(v)), ic.contains(v)));
            } else {
                let right = combine(ib, ic, o2);
                if !cx.assume(!right.is_empty()) { return; }
                reference = combine(ia, right, o1);
                member = Box::new(move |v| apply(o1, ia.contains(v), apply(o2, ib.contains(v), ic.contains(v))));
            }
        }
        if !cx.assume(!reference.is_empty()) { return; }
        set = ElementOrSetOperation::SetOperation(SetOperation { base: a, operator: ops[o1].clone(), operant: Box::new(rest) });
    }
    let outer_marker = cx.any_bool();
    // a trailing `, ...` is attached by the lexer to the last operand when that operand is a value or a range
    let last_operand_marker = cx.any_bool();
    let set = if last_operand_marker { mark_last(set) } else { set };
    let outer_marker = outer_marker || last_operand_marker;
    let constraint = Constraint::Subtype(ElementSetSpecs { set, extensible: outer_marker && !last_operand_marker });
    cx.describe(|| format!("expr=({}){}", render_set(match &constraint { Constraint::Subtype(s) => &s.set, _ => unreachable!() }), if last_operand_marker { " with `, ...` attached to the last operand" } else if outer_marker { " followed by `, ...`" } else { "" }));
    let folded: Result<PerVisibleRangeConstraints, _> = (&constraint).try_into();
    match folded {
        Ok(r) => {
            let (lo, hi): (Option<i128>, Option<i128>) = (r.min(), r.max());
            let got = Iv { lo, hi };
            // never excludes a value that the ASN.1 constraint permits (probe points: every alphabet point +-1 and far out)
            let mut ok = true;
            let mut k = 0;
            while k < 7 {
                for d in [-1i128, 0, 1] {
                    let v = C04_POINTS[k] + d;
                    if member(v) && !got.contains(v) { ok = false; }
                }
                k += 1;
            }
            for v in [i128::MIN / 2, i128::MAX / 2] { if member(v) && !got.contains(v) { ok = false; } }
            vob!(cx, "C04.fold.never_excludes_a_permitted_value", ok);
            // C06: the component's integer type is chosen from this range, so it must contain every permitted value
            vob!(cx, "C06.component_path.folded_range_contains_every_permitted_value", ok);
            vob!(cx, "C04.fold.lower_bound_is_per_visible_effective", got.lo == reference.lo);
            vob!(cx, "C04.fold.upper_bound_is_per_visible_effective", got.hi == reference.hi);
            // flagged extensible exactly when the constraint carries an extension marker (operands carry none here)
            vob!(cx, "C04.fold.extensible_iff_the_constraint_carries_a_marker", (got.lo.is_none() && got.hi.is_none()) || r.is_extensible() == outer_marker);
            // C06: this flag is what Rasn::int_type_token receives for components — a marker must reach it
            vob!(cx, "C06.component_path.marker_reaches_the_width_selection", (got.lo.is_none() && got.hi.is_none()) || !outer_marker || r.is_extensible());
        }
        Err(_) => { vob!(cx, "C04.fold.folds_without_error", false); }
    }
}
/// sets the extensible flag of the last (right-most) operand
fn mark_last(e: crate::intermediate::constraints::ElementOrSetOperation) -> crate::intermediate::constraints::ElementOrSetOperation {
    use crate::intermediate::constraints::*;
    let mark = |s: SubtypeElements| match s {
        SubtypeElements::SingleValue { value, .. } => SubtypeElements::SingleValue { value, extensible: true },
        SubtypeElements::ValueRange { min, max, .. } => SubtypeElements::ValueRange { min, max, extensible: true },
        other => other,
    };
    match e {
        ElementOrSetOperation::Element(s) => ElementOrSetOperation::Element(mark(s)),
        ElementOrSetOperation::SetOperation(o) => ElementOrSetOperation::SetOperation(SetOperation { base: o.base, operator: o.operator, operant: Box::new(mark_last(*o.operant)) }),
    }
}
#[cfg(not(kani))]
fn render_set(e: &crate::intermediate::constraints::ElementOrSetOperation) -> String {
    use crate::intermediate::constraints::*;
    let elem = |s: &SubtypeElements| match s {
        SubtypeElements::SingleValue { value: ASN1Value::Integer(v), .. } => format!("{v}"),
        SubtypeElements::ValueRange { min, max, .. } => format!("{}..{}", match min { Some(ASN1Value::Integer(v)) => v.to_string(), _ => "MIN".into() }, match max { Some(ASN1Value::Integer(v)) => v.to_string(), _ => "MAX".into() }),
        _ => "?".into(),
    };
    match e {
        ElementOrSetOperation::Element(s) => elem(s),
        ElementOrSetOperation::SetOperation(o) => format!("{} {} ({})", elem(&o.base), match o.operator { SetOperator::Union => "|", SetOperator::Intersection => "^", SetOperator::Except => "EXCEPT" }, render_set(&o.operant)),
    }
}
#[cfg(kani)]
fn render_set(_e: &crate::intermediate::constraints::ElementOrSetOperation) -> String { String::new() }
/// X.691 §10.3.21: union -> hull, intersection -> intersection, EXCEPT -> the excepted part is ignored
fn combine(a: Iv, b: Iv, op: usize) -> Iv {
    match op {
        0 => Iv { lo: match (a.lo, b.lo) { (Some(x), Some(y)) => Some(x.min(y)), _ => None }, hi: match (a.hi, b.hi) { (Some(x), Some(y)) => Some(x.max(y)), _ => None } },
        1 => Iv { lo: match (a.lo, b.lo) { (Some(x), Some(y)) => Some(x.max(y)), (x, None) => x, (None, y) => y }, hi: match (a.hi, b.hi) { (Some(x), Some(y)) => Some(x.min(y)), (x, None) => x, (None, y) => y } },
        _ => a,
    }
}

// ------------------------------------------------------------------------------------------------
// C02 / C03 / C05 — emission of constructed types by the rasn backend (`Backend::generate_module` ->
// generate_tld -> generate_sequence_or_set / generate_choice -> format_sequence_or_set_members, format_choice_options,
// format_tag, ...).  All of it is `quote!`/TokenStream code (Kani ICE on proc_macro2, no Verus support), so this
// contract runs as a native bounded stand-in on IR values built directly (no lexer, no linker involved).
// ------------------------------------------------------------------------------------------------
#[cfg(not(kani))]
fn split_top_level(body: &str) -> Vec<String> {
    let mut out = vec![];
    let mut depth = 0i32;
    let mut cur = String::new();
    for ch in body.chars() {
        match ch {
            '(' | '[' | '{' => { depth += 1; cur.push(ch); }
            ')' | ']' | '}' => { depth -= 1; cur.push(ch); }
            ',' if depth == 0 => { out.push(cur.trim().to_string()); cur = String::new(); }
            _ => cur.push(ch),
        }
    }
    if !cur.trim().is_empty() { out.push(cur.trim().to_string()); }
    out
}
/// (attributes before the item, fields/variants as written) of `pub struct <name> {..}` / `pub enum <name> {..}`
#[cfg(not(kani))]
fn item_of(generated: &str, name: &str) -> Option<(String, Vec<String>)> {
    let head_s = format!("pub struct {name} {{");
    let head_e = format!("pub enum {name} {{");
    let (pos, head) = match (generated.find(&head_s), generated.find(&head_e)) { (Some(p), _) => (p, head_s), (_, Some(p)) => (p, head_e), _ => return None };
    let attrs_start = generated[..pos].rfind("# [derive").unwrap_or(0);
    let body_start = pos + head.len();
    let mut depth = 1;
    let mut end = body_start;
    for (i, ch) in generated[body_start..].char_indices() {
        match ch { '{' => depth += 1, '}' => { depth -= 1; if depth == 0 { end = body_start + i; break; } } _ => {} }
    }
    Some((generated[attrs_start..pos].to_string(), split_top_level(&generated[body_start..end])))
}

pub fn contract_generate_constructed<C: Ctx>(cx: &mut C) {
    #[cfg(not(kani))]
    {
        use crate::intermediate::types::*;
        use crate::generator::Backend;
        use std::{cell::RefCell, rc::Rc};
        let env = any_tagenv(cx);
        let implied = cx.any_bool();
        let kind = cx.choose(3); // 0 SEQUENCE, 1 SET, 2 CHOICE
        let n = 1 + cx.choose(3);
        let ext = cx.choose(n + 2); // 0 = no marker, k+1 = marker with first addition index k (0..=n)
        let extensible = if ext == 0 { None } else { Some(ext - 1) };
        let mut optional = [false; 4];
        let mut tagged = [false; 4];
        for i in 0..n {
            optional[i] = kind != 2 && cx.any_bool();
            tagged[i] = cx.any_bool();
        }
        // a tag as it looks after apply_tagging_environment in a module with default `env`
        let member_tag = |i: usize| if tagged[i] { Some(AsnTag { environment: env, tag_class: TagClass::ContextSpecific, id: 10 + i as u64 }) } else { None };
        let ty = if kind == 2 {
            ASN1Type::Choice(Choice { extensible, constraints: vec![], options: (0..n).map(|i| ChoiceOption { name: format!("f{i}"), tag: member_tag(i), ty: ASN1Type::Boolean(Boolean { constraints: vec![] }), constraints: vec![], is_recursive: false }).collect() })
        } else {
            let s = SequenceOrSet { components_of: vec![], extensible, constraints: vec![], members: (0..n).map(|i| SequenceOrSetMember { name: format!("f{i}"), tag: member_tag(i), ty: ASN1Type::Boolean(Boolean { constraints: vec![] }), optionality: if optional[i] { Optionality::Optional } else { Optionality::Required }, is_recursive: false, constraints: vec![] }).collect() };
            if kind == 0 { ASN1Type::Sequence(s) } else { ASN1Type::Set(s) }
        };
        let header = |name: &str, env, implied: bool| Rc::new(RefCell::new(ModuleHeader { name: name.into(), module_identifier: None, encoding_reference_default: None, tagging_environment: env,
            extensibility_environment: if implied { ExtensibilityEnvironment::Implied } else { ExtensibilityEnvironment::Explicit }, imports: vec![], exports: None }));
        // optionally component f0 is an anonymous SEQUENCE { x BOOLEAN } that has to be hoisted into an item of its own
        let nested = cx.any_bool();
        let nested_recursive = nested && n <= 2 && cx.any_bool();   // the linker marked the anonymous component as recursive
        // the component that carries the anonymous type may have a name that needs mangling (Rust keyword, hyphen)
        //   (varied only for single-component types, to keep the product small)
        let first_name = if nested && n == 1 { ["f0", "struct", "my-field", "type", "self", "stationID"][cx.choose(6)] } else { "f0" };
        let ty = if nested {
            let inner = ASN1Type::Sequence(SequenceOrSet { components_of: vec![], extensible: None, constraints: vec![], members: vec![SequenceOrSetMember { name: "x".into(), tag: None, ty: ASN1Type::Boolean(Boolean { constraints: vec![] }), optionality: Optionality::Required, is_recursive: false, constraints: vec![] }] });
            match ty {
                ASN1Type::Choice(mut c) => { c.options[0].ty = inner; c.options[0].is_recursive = nested_recursive; c.options[0].name = first_name.into(); ASN1Type::Choice(c) }
                ASN1Type::Sequence(mut s) => { s.members[0].ty = inner; s.members[0].is_recursive = nested_recursive; s.members[0].name = first_name.into(); ASN1Type::Sequence(s) }
                ASN1Type::Set(mut s) => { s.members[0].ty = inner; s.members[0].is_recursive = nested_recursive; s.members[0].name = first_name.into(); ASN1Type::Set(s) }
                other => other,
            }
        } else { ty };
        let top_tagged = cx.any_bool();
        // the tag of the type assignment, as it looks after apply_tagging_environment (keyword-less tag in a module with default `env`)
        let top_tag = if top_tagged { Some(AsnTag { environment: env, tag_class: TagClass::Application, id: 3 }) } else { None };
        let tld_with = |h: &Rc<RefCell<ModuleHeader>>, ty: &ASN1Type, tag: Option<AsnTag>| ToplevelDefinition::Type(ToplevelTypeDefinition { comments: String::new(), tag, name: "T".into(), ty: ty.clone(), parameterization: None, module_header: Some(h.clone()) });
        let tld = |h: &Rc<RefCell<ModuleHeader>>, ty: &ASN1Type| tld_with(h, ty, None);
        cx.describe(|| format!("module_default={env:?} extensibility_implied={implied} kind={} first_component={first_name} f0_is_anonymous_sequence={nested} f0_marked_recursive={nested_recursive} type_assignment_tagged={top_tagged} components={n} first_addition_index={extensible:?} optional={:?} tagged={:?}", ["SEQUENCE", "SET", "CHOICE"][kind], &optional[..n], &tagged[..n]));
        let h = header("M", env, implied);
        let mut backend = crate::generator::rasn::Rasn::default();
        let top_tag_again = top_tag.clone();
        let out = backend.generate_module(vec![tld_with(&h, &ty, top_tag)]);
        let generated = match out { Ok(m) if m.warnings.is_empty() => m.generated.unwrap_or_default(), _ => { vob!(cx, "C02.generate.constructed_type_is_generated", false); return; } };
        let Some((attrs, fields)) = item_of(&generated, "T") else { vob!(cx, "C02.generate.constructed_type_is_generated", false); return; };
        // C02: exactly one field / variant per component, in source order
        let mut in_order = fields.len() == n;
        for (i, f) in fields.iter().enumerate() {
            let key = if kind == 2 { format!("f{i} (") } else { format!("pub f{i} :") };
            // the first component may carry a name that is mangled (keyword / hyphen): only its position is checked
            if !(nested && i == 0 && first_name != "f0") { in_order = in_order && f.contains(&key); }
        }
        vob!(cx, "C02.generate.one_field_or_variant_per_component_in_order", in_order);
        if !in_order { return; }
        let mut opt_ok = true; let mut ext_ok = true; let mut tag_ok = true;
        for (i, f) in fields.iter().enumerate() {
            if kind != 2 && !(nested && i == 0) { opt_ok = opt_ok && (f.contains(": Option < bool >") == optional[i]) && (optional[i] || f.ends_with(": bool")); }
            let is_addition = extensible.map_or(false, |k| i >= k);
            ext_ok = ext_ok && (f.contains("extension_addition") == is_addition);
            let explicit_form = format!("tag (explicit (context , {}))", 10 + i);
            let implicit_form = format!("tag (context , {})", 10 + i);
            tag_ok = tag_ok && if !tagged[i] { !f.contains("tag (") } else if env == TaggingEnvironment::Explicit { f.contains(&explicit_form) } else { f.contains(&implicit_form) && !f.contains("explicit") };
        }
        vob!(cx, "C02.generate.optional_components_are_option", opt_ok);
        if nested {
            // the anonymous type is generated as an item of its own, keeps its component, and inherits the module's defaults
            // the type the first field / variant refers to ...
            let type_text = if kind == 2 { fields[0].rsplit('(').next().unwrap_or("").trim_end_matches(')').trim().to_string() } else { fields[0].rsplit(':').next().unwrap_or("").trim().to_string() };
            let referenced: String = type_text.replace("Option <", "").replace("Box <", "").replace('>', "").trim().to_string();
            // ... must be an item that was actually generated, with the anonymous type's component
            let hoisted = item_of(&generated, &referenced);
            vob!(cx, "C02.generate.anonymous_nested_type_is_hoisted_with_its_components", !referenced.is_empty() && referenced != "bool" && matches!(&hoisted, Some((_, fs)) if fs.len() == 1 && fs[0].contains("pub x : bool")));
            vob!(cx, "C02.generate.recursive_anonymous_component_is_boxed", type_text.contains(&format!("Box < {referenced} >")) == nested_recursive);
            if let Some((inner_attrs, _)) = &hoisted {
                vob!(cx, "C05.generate.nested_type_extensible_iff_extensibility_implied", inner_attrs.contains("non_exhaustive") == implied);
                vob!(cx, "C03.generate.nested_type_automatic_tags_iff_automatic_module", inner_attrs.contains("automatic_tags") == (env == TaggingEnvironment::Automatic));
            }
        }
        vob!(cx, "C05.generate.extension_additions_exactly_after_the_marker", ext_ok);
        vob!(cx, "C03.generate.tag_rendered_with_class_number_and_mode", tag_ok);
        vob!(cx, "C02.generate.set_is_marked_as_set", attrs.contains("rasn (set") == (kind == 1) || attrs.contains(", set") == (kind == 1));
        vob!(cx, "C05.generate.extensible_iff_marker_or_extensibility_implied", attrs.contains("non_exhaustive") == (extensible.is_some() || implied));
        // X.680 §31.2.7: the tag on the assignment is explicit in an EXPLICIT TAGS module, and always when the tagged type is a CHOICE (clause c)
        let top_explicit = "tag (explicit (application , 3))";
        let top_implicit = "tag (application , 3)";
        vob!(cx, "C03.generate.type_assignment_tag_mode_and_tagged_choice_is_explicit",
            if !top_tagged { !attrs.contains("application") } else if kind == 2 || env == TaggingEnvironment::Explicit { attrs.contains(top_explicit) } else { attrs.contains(top_implicit) && !attrs.contains(top_explicit) });
        let any_tagged = (0..n).any(|i| tagged[i]);
        vob!(cx, "C03.generate.automatic_tags_iff_automatic_module_and_no_component_tagged", attrs.contains("automatic_tags") == (env == TaggingEnvironment::Automatic && !any_tagged));
        // C05: the extensibility default is the one of the type's own module — compile a marker-less type of another module on the same backend
        let other_implied = cx.any_bool();
        let h2 = header("N", TaggingEnvironment::Automatic, other_implied);
        let plain = ASN1Type::Sequence(SequenceOrSet { components_of: vec![], extensible: None, constraints: vec![], members: vec![SequenceOrSetMember { name: "f0".into(), tag: None, ty: ASN1Type::Boolean(Boolean { constraints: vec![] }), optionality: Optionality::Required, is_recursive: false, constraints: vec![] }] });
        let second = backend.generate_module(vec![tld(&h2, &plain)]).ok().and_then(|m| m.generated).unwrap_or_default();
        let leaked = match item_of(&second, "T") { Some((a, _)) => a.contains("non_exhaustive") != other_implied, None => true };
        vob!(cx, "C05.generate.extensibility_default_taken_from_the_types_own_module", !leaked);
        // ... and so is the tagging default: module N says AUTOMATIC TAGS and its only component is untagged
        vob!(cx, "C03.generate.tagging_default_taken_from_the_types_own_module", matches!(item_of(&second, "T"), Some((a, _)) if a.contains("automatic_tags")));
        // and back again: a third module with the first module's defaults generates the first type exactly as before
        let third = backend.generate_module(vec![tld_with(&h, &ty, top_tag_again)]).ok().and_then(|m| m.generated).unwrap_or_default();
        vob!(cx, "C03.generate.module_defaults_do_not_depend_on_earlier_modules", third == generated);
    }
    #[cfg(kani)]
    { let _ = cx; }
}

// ------------------------------------------------------------------------------------------------
// C04 — value references in bounds are resolved before the PER-visible range is computed:
// ToplevelDefinition::has_constraint_reference (-> contains_constraint_reference -> Constraint/SubtypeElements::
// has_cross_reference) guards ToplevelDefinition::link_constraint_reference in the validator.
// Bounded stand-in (native): ranges / single values whose ends are literal, reference or MIN/MAX, directly,
// inside SIZE(..), as a SEQUENCE component and in a union.
// ------------------------------------------------------------------------------------------------
pub fn contract_constraint_value_references<C: Ctx>(cx: &mut C) {
    #[cfg(not(kani))]
    {
        use crate::intermediate::constraints::*;
        use crate::intermediate::encoding_rules::per_visible::per_visible_range_constraints;
        use crate::intermediate::types::*;
        use std::collections::BTreeMap;
        let vref = |name: &str| ASN1Value::ElsewhereDeclaredValue { module: None, parent: None, identifier: name.into() };
        // end: 0 literal, 1 reference, 2 open
        let lo_k = cx.choose(3);
        let hi_k = cx.choose(3);
        let single = cx.any_bool();
        let (lo, lo_want) = match lo_k { 0 => (Some(ASN1Value::Integer(1)), Some(1)), 1 => (Some(vref("v")), Some(3)), _ => (None, None) };
        let (hi, hi_want) = match hi_k { 0 => (Some(ASN1Value::Integer(10)), Some(10)), 1 => (Some(vref("w")), Some(7)), _ => (None, None) };
        let (elem, want_lo, want_hi) = if single {
            if !cx.assume(lo_k != 2) { return; }
            (SubtypeElements::SingleValue { value: lo.clone().unwrap(), extensible: false }, lo_want, lo_want)
        } else {
            (SubtypeElements::ValueRange { min: lo, max: hi, extensible: false }, lo_want, hi_want)
        };
        let position = cx.choose(8); // 0 type assignment INTEGER, 1 SIZE on OCTET STRING, 2 SEQUENCE component, 3 union with 5, 4 SIZE on BIT STRING, 5 SIZE on IA5String, 6 SIZE on SEQUENCE OF, 7 SIZE on SET OF
        let (set, want_lo, want_hi) = match position {
            3 => (ElementOrSetOperation::SetOperation(SetOperation { base: elem, operator: SetOperator::Union, operant: Box::new(ElementOrSetOperation::Element(SubtypeElements::SingleValue { value: ASN1Value::Integer(5), extensible: false })) }),
                  want_lo.map(|l: i128| l.min(5)), want_hi.map(|h: i128| h.max(5))),
            1 | 4 | 5 | 6 | 7 => (ElementOrSetOperation::Element(SubtypeElements::SizeConstraint(Box::new(ElementOrSetOperation::Element(elem)))), want_lo, want_hi),
            _ => (ElementOrSetOperation::Element(elem), want_lo, want_hi),
        };
        let c = Constraint::Subtype(ElementSetSpecs { set, extensible: false });
        let int_ty = |cs: Vec<Constraint>| ASN1Type::Integer(Integer { constraints: cs, distinguished_values: None });
        let ty = match position {
            1 => ASN1Type::OctetString(OctetString { constraints: vec![c] }),
            4 => ASN1Type::BitString(BitString { constraints: vec![c], distinguished_values: None }),
            5 => ASN1Type::CharacterString(CharacterString { constraints: vec![c], ty: CharacterStringType::IA5String }),
            6 => ASN1Type::SequenceOf(SequenceOrSetOf { constraints: vec![c], element_type: Box::new(ASN1Type::Boolean(Boolean { constraints: vec![] })), element_tag: None, is_recursive: false }),
            7 => ASN1Type::SetOf(SequenceOrSetOf { constraints: vec![c], element_type: Box::new(ASN1Type::Boolean(Boolean { constraints: vec![] })), element_tag: None, is_recursive: false }),
            2 => ASN1Type::Sequence(SequenceOrSet { components_of: vec![], extensible: None, constraints: vec![], members: vec![SequenceOrSetMember { name: "a".into(), tag: None, ty: int_ty(vec![c]), optionality: Optionality::Required, is_recursive: false, constraints: vec![] }] }),
            _ => int_ty(vec![c]),
        };
        let mut tlds: BTreeMap<String, ToplevelDefinition> = BTreeMap::new();
        tlds.insert("v".into(), ToplevelDefinition::Value(ToplevelValueDefinition::from(("v", ASN1Value::Integer(3), int_ty(vec![])))));
        tlds.insert("w".into(), ToplevelDefinition::Value(ToplevelValueDefinition::from(("w", ASN1Value::Integer(7), int_ty(vec![])))));
        let mut tld = ToplevelDefinition::Type(ToplevelTypeDefinition { comments: String::new(), tag: None, name: "T".into(), ty, parameterization: None, module_header: None });
        cx.describe(|| format!("lower={} upper={} single_value={single} position={}", ["literal", "reference", "MIN"][lo_k], ["literal", "reference", "MAX"][hi_k], ["INTEGER type assignment", "SIZE of OCTET STRING", "SEQUENCE component", "union with 5", "SIZE of BIT STRING", "SIZE of IA5String", "SIZE of SEQUENCE OF", "SIZE of SET OF"][position]));
        // exactly what Validator::validate does
        if tld.has_constraint_reference() {
            let linked = tld.link_constraint_reference(&tlds);
            vob!(cx, "C04.references.linking_succeeds", linked.is_ok());
        }
        let constraints: Vec<Constraint> = match &tld {
            ToplevelDefinition::Type(t) => match &t.ty {
                ASN1Type::Sequence(s) => s.members[0].ty.constraints().to_vec(),
                other => other.constraints().to_vec(),
            },
            _ => vec![],
        };
        let is_size = matches!(position, 1 | 4 | 5 | 6 | 7);
        match per_visible_range_constraints(!is_size, &constraints) {
            Ok(r) => {
                let (glo, ghi): (Option<i128>, Option<i128>) = (r.min(), r.max());
                let want_lo = if is_size { want_lo.or(Some(0)) } else { want_lo };
                vob!(cx, "C04.references.lower_bound_resolved_to_the_referenced_value", glo == want_lo);
                vob!(cx, "C04.references.upper_bound_resolved_to_the_referenced_value", ghi == want_hi);
            }
            Err(_) => { vob!(cx, "C04.references.range_computable_after_linking", false); }
        }
    }
    #[cfg(kani)]
    { let _ = cx; }
}

// ------------------------------------------------------------------------------------------------
// C02 — "recursive components are boxed": ToplevelDefinition::mark_recursive -> ASN1Type::mark_recursive / recurses
// (validator/linking/mod.rs; iterator closures + BTreeMap, outside both verifiers).  Bounded stand-in (native):
// 2..=3 mutually referencing SEQUENCE / SET / CHOICE definitions with 1..=2 components each; the linker pass is
// run in the validator's order and the graph of un-boxed references must be acyclic afterwards (a cycle of
// un-boxed members is an infinitely sized Rust type).
// ------------------------------------------------------------------------------------------------
pub fn contract_recursion_marking<C: Ctx>(cx: &mut C) {
    #[cfg(not(kani))]
    {
        use crate::intermediate::types::*;
        use std::collections::BTreeMap;
        const NAMES: [&str; 3] = ["A", "B", "C"];
        let k = 2 + cx.choose(2);
        let mut tlds: BTreeMap<String, ToplevelDefinition> = BTreeMap::new();
        let mut shape = String::new();
        for d in 0..k {
            let kind = cx.choose(3);
            let n = 1 + cx.choose(2);
            let mut tys = vec![];
            for _ in 0..n {
                let t = cx.choose(2 * k + 1);
                let r = |i: usize| ASN1Type::ElsewhereDeclaredType(DeclarationElsewhere { parent: None, module: None, identifier: NAMES[i].into(), constraints: vec![] });
                // a reference may also sit inside an anonymous nested SEQUENCE / CHOICE
                let wrap = if t >= 1 && t <= k { cx.choose(3) } else { 0 };
                tys.push(if t == 0 { (ASN1Type::Boolean(Boolean { constraints: vec![] }), "BOOLEAN".to_string()) }
                    else if t <= k && wrap == 0 { (r(t - 1), NAMES[t - 1].to_string()) }
                    else if t <= k && wrap == 1 { (ASN1Type::Sequence(SequenceOrSet { components_of: vec![], extensible: None, constraints: vec![], members: vec![SequenceOrSetMember { name: "n".into(), tag: None, ty: r(t - 1), optionality: Optionality::Optional, is_recursive: false, constraints: vec![] }] }), format!("SEQUENCE {{ n {} }}", NAMES[t - 1])) }
                    else if t <= k { (ASN1Type::Choice(Choice { extensible: None, constraints: vec![], options: vec![ChoiceOption { name: "n".into(), tag: None, ty: r(t - 1), constraints: vec![], is_recursive: false }] }), format!("CHOICE {{ n {} }}", NAMES[t - 1])) }
                    else { (ASN1Type::SequenceOf(SequenceOrSetOf { constraints: vec![], element_type: Box::new(r(t - k - 1)), element_tag: None, is_recursive: false }), format!("SEQUENCE OF {}", NAMES[t - k - 1])) });
            }
            shape.push_str(&format!("{} ::= {} {{ {} }} ", NAMES[d], ["SEQUENCE", "SET", "CHOICE"][kind], tys.iter().map(|t| t.1.clone()).collect::<Vec<_>>().join(", ")));
            let ty = if kind == 2 {
                ASN1Type::Choice(Choice { extensible: None, constraints: vec![], options: tys.into_iter().enumerate().map(|(i, t)| ChoiceOption { name: format!("m{i}"), tag: None, ty: t.0, constraints: vec![], is_recursive: false }).collect() })
            } else {
                let s = SequenceOrSet { components_of: vec![], extensible: None, constraints: vec![], members: tys.into_iter().enumerate().map(|(i, t)| SequenceOrSetMember { name: format!("m{i}"), tag: None, ty: t.0, optionality: Optionality::Optional, is_recursive: false, constraints: vec![] }).collect() };
                if kind == 0 { ASN1Type::Sequence(s) } else { ASN1Type::Set(s) }
            };
            tlds.insert(NAMES[d].into(), ToplevelDefinition::Type(ToplevelTypeDefinition { comments: String::new(), tag: None, name: NAMES[d].into(), ty, parameterization: None, module_header: None }));
        }
        cx.describe(|| shape.clone());
        // the validator's pass: keys in order, definition taken out, marked against the others, put back
        let keys: Vec<String> = tlds.keys().cloned().collect();
        let mut ok = true;
        for key in keys {
            if let Some((kk, mut tld)) = tlds.remove_entry(&key) {
                ok = ok && tld.mark_recursive(&tlds).is_ok();
                tlds.insert(kk, tld);
            }
        }
        vob!(cx, "C02.recursion.marking_succeeds", ok);
        // un-boxed reference edges
        let mut edge = [[false; 3]; 3];
        for (d, name) in NAMES.iter().enumerate().take(k) {
            if let Some(ToplevelDefinition::Type(t)) = tlds.get(*name) {
                let members: Vec<(&ASN1Type, bool)> = match &t.ty {
                    ASN1Type::Choice(c) => c.options.iter().map(|o| (&o.ty, o.is_recursive)).collect(),
                    ASN1Type::Sequence(s) | ASN1Type::Set(s) => s.members.iter().map(|m| (&m.ty, m.is_recursive)).collect(),
                    _ => vec![],
                };
                for (ty, boxed) in members {
                    if boxed { continue; }
                    // direct reference, or a reference held by an un-boxed component of an un-boxed anonymous nested type
                    let mut targets: Vec<&ASN1Type> = vec![];
                    match ty {
                        ASN1Type::Sequence(inner) | ASN1Type::Set(inner) => targets.extend(inner.members.iter().filter(|m| !m.is_recursive).map(|m| &m.ty)),
                        ASN1Type::Choice(inner) => targets.extend(inner.options.iter().filter(|o| !o.is_recursive).map(|o| &o.ty)),
                        other => targets.push(other),
                    }
                    for t in targets {
                        if let ASN1Type::ElsewhereDeclaredType(e) = t {
                            if let Some(j) = NAMES.iter().position(|n| *n == e.identifier) { edge[d][j] = true; }
                        }
                    }
                }
            }
        }
        // transitive closure
        for m in 0..3 { for i in 0..3 { for j in 0..3 { if edge[i][m] && edge[m][j] { edge[i][j] = true; } } } }
        vob!(cx, "C02.recursion.every_reference_cycle_has_a_boxed_member", !(edge[0][0] || edge[1][1] || edge[2][2]));
    }
    #[cfg(kani)]
    { let _ = cx; }
}

// ------------------------------------------------------------------------------------------------
// C04 — the value(..) annotation emitted for a constrained INTEGER-like component (generator/rasn/utils.rs:
// format_member_or_option -> constraints_and_type_name + format_range_annotations) is the range of the constraint.
// Bounded stand-in (native): component typed INTEGER or by a type reference, range ends from {-5,0,3,MIN} x {5,MAX},
// with/without extension marker, in SEQUENCE and CHOICE.
// ------------------------------------------------------------------------------------------------
pub fn contract_generate_component_bounds<C: Ctx>(cx: &mut C) {
    #[cfg(not(kani))]
    {
        use crate::intermediate::constraints::*;
        use crate::intermediate::types::*;
        use crate::generator::Backend;
        use std::{cell::RefCell, rc::Rc};
        let by_reference = cx.any_bool();
        let in_choice = cx.any_bool();
        let size = cx.any_bool();   // SIZE(..) on an OCTET STRING component instead of a value range on an INTEGER
        let lo = [Some(-5i128), Some(0), Some(3), None][cx.choose(4)];
        let hi = [Some(5i128), None][cx.choose(2)];
        let ext = cx.any_bool();
        if !cx.assume(lo.is_some() || hi.is_some()) { return; }
        if !cx.assume(!size || matches!(lo, Some(0) | Some(3))) { return; }
        let range = SubtypeElements::ValueRange { min: lo.map(ASN1Value::Integer), max: hi.map(ASN1Value::Integer), extensible: ext };
        // how the bound is written: 0 as a range; 1 as a type inclusion `(Bound)` with `Bound ::= INTEGER (lo..hi)` already
        // inlined by the linker; 2 as a union of the two ends inside SIZE: `SIZE (lo | hi)`
        let form = cx.choose(3);
        if !cx.assume(form != 1 || (!size && !by_reference)) { return; }
        if !cx.assume(form != 2 || (size && lo.is_some() && hi.is_some())) { return; }
        let elem = match form {
            1 => SubtypeElements::ContainedSubtype { subtype: ASN1Type::Integer(Integer { constraints: vec![Constraint::Subtype(ElementSetSpecs { set: ElementOrSetOperation::Element(range.clone()), extensible: false })], distinguished_values: None }), extensible: false },
            2 => SubtypeElements::SizeConstraint(Box::new(ElementOrSetOperation::SetOperation(SetOperation {
                    base: SubtypeElements::SingleValue { value: ASN1Value::Integer(lo.unwrap()), extensible: false }, operator: SetOperator::Union,
                    operant: Box::new(ElementOrSetOperation::Element(SubtypeElements::SingleValue { value: ASN1Value::Integer(hi.unwrap()), extensible: ext })) }))),
            _ => if size { SubtypeElements::SizeConstraint(Box::new(ElementOrSetOperation::Element(range.clone()))) } else { range.clone() },
        };
        let c = Constraint::Subtype(ElementSetSpecs { set: ElementOrSetOperation::Element(elem), extensible: false });
        let ty = if by_reference { ASN1Type::ElsewhereDeclaredType(DeclarationElsewhere { parent: None, module: None, identifier: "MyType".into(), constraints: vec![c] }) }
                 else if size { ASN1Type::OctetString(OctetString { constraints: vec![c] }) }
                 else { ASN1Type::Integer(Integer { constraints: vec![c], distinguished_values: None }) };
        let outer = if in_choice {
            ASN1Type::Choice(Choice { extensible: None, constraints: vec![], options: vec![ChoiceOption { name: "f0".into(), tag: None, ty, constraints: vec![], is_recursive: false }] })
        } else {
            ASN1Type::Sequence(SequenceOrSet { components_of: vec![], extensible: None, constraints: vec![], members: vec![SequenceOrSetMember { name: "f0".into(), tag: None, ty, optionality: Optionality::Required, is_recursive: false, constraints: vec![] }] })
        };
        let h = Rc::new(RefCell::new(ModuleHeader { name: "M".into(), module_identifier: None, encoding_reference_default: None, tagging_environment: TaggingEnvironment::Automatic, extensibility_environment: ExtensibilityEnvironment::Explicit, imports: vec![], exports: None }));
        let tld = ToplevelDefinition::Type(ToplevelTypeDefinition { comments: String::new(), tag: None, name: "T".into(), ty: outer, parameterization: None, module_header: Some(h) });
        cx.note("constraint_form(0=range,1=type inclusion,2=SIZE(lo|hi))", form);
        cx.describe(|| format!("component_type={} in={} constraint=({}{}..{}{}{})", if by_reference { "MyType (type reference)" } else if size { "OCTET STRING" } else { "INTEGER" }, if in_choice { "CHOICE" } else { "SEQUENCE" },
            if size { "SIZE(" } else { "" }, lo.map_or("MIN".to_string(), |v| v.to_string()), hi.map_or("MAX".to_string(), |v| v.to_string()), if ext { ", ..." } else { "" }, if size { ")" } else { "" }));
        let mut backend = crate::generator::rasn::Rasn::default();
        let generated = match backend.generate_module(vec![tld]) { Ok(m) if m.warnings.is_empty() => m.generated.unwrap_or_default(), _ => { vob!(cx, "C04.generate.constrained_component_is_generated", false); return; } };
        let Some((_, fields)) = item_of(&generated, "T") else { vob!(cx, "C04.generate.constrained_component_is_generated", false); return; };
        let range = match (lo, hi) { (Some(l), Some(h)) => format!("{l}..={h}"), (Some(l), None) => format!("{l}.."), (None, Some(h)) => format!("..={h}"), _ => String::new() };
        let kw = if size { "size" } else { "value" };
        let want = if ext { format!("{kw} (\"{range}\" , extensible)") } else { format!("{kw} (\"{range}\")") };
        if size && lo == Some(0) && hi.is_none() && !ext {
            // SIZE(0..MAX) without marker is the default and may be left out
            vob!(cx, "C04.generate.component_size_annotation_is_the_constraint_range", fields.len() == 1 && (fields[0].contains(&want) || !fields[0].contains("size (")));
        } else if size {
            vob!(cx, "C04.generate.component_size_annotation_is_the_constraint_range", fields.len() == 1 && fields[0].contains(&want));
        } else {
            vob!(cx, "C04.generate.component_value_annotation_is_the_constraint_range", fields.len() == 1 && fields[0].contains(&want));
            if !by_reference && fields.len() == 1 {
                // C06: the component's Rust type is chosen from that very range (sign included)
                let want_ty = if ext || lo.is_none() || hi.is_none() { "Integer" } else if lo.unwrap() < 0 { "i8" } else { "u8" };
                let got_ty = if in_choice { let t = fields[0].rsplit("f0 (").next().unwrap_or("").trim(); t.strip_suffix(')').unwrap_or(t).trim().to_string() } else { fields[0].rsplit("pub f0 :").next().unwrap_or("").trim().to_string() };
                vob!(cx, "C06.component_path.type_is_chosen_from_the_folded_range", got_ty == want_ty);
            }
        }
    }
    #[cfg(kani)]
    { let _ = cx; }
}


// ------------------------------------------------------------------------------------------------
// C14 / C05 / C16-adjacent — emission of ENUMERATED types (generator/rasn: generate_enumerated -> format_enum_members):
// one variant per enumeral in order, discriminant = the assigned number, extension_addition exactly after the marker,
// and the original identifier recorded whenever the Rust variant name differs from it.
// ------------------------------------------------------------------------------------------------
pub fn contract_generate_enumerated<C: Ctx>(cx: &mut C) {
    #[cfg(not(kani))]
    {
        use crate::intermediate::types::*;
        use crate::generator::Backend;
        use std::{cell::RefCell, rc::Rc};
        const POOL: [&str; 12] = ["alpha", "with-hyphen", "move", "type", "b2", "loop", "self", "crate", "super", "true", "a-B-c", "in"];
        const NUMBERS: [i128; 6] = [5, -1, 0, 7, 2, 300];
        let n = 1 + cx.choose(4);
        let start = cx.choose(12);
        let ext = cx.choose(n + 2);
        let extensible = if ext == 0 { None } else { Some(ext - 1) };
        let members: Vec<Enumeral> = (0..n).map(|i| Enumeral { name: POOL[(start + i) % 12].into(), description: None, index: NUMBERS[(start + 2 * i) % 6] + if (start + i) % 2 == 0 { 1000 * (4 - i as i128) } else { -1000 * i as i128 } }).collect();
        cx.describe(|| format!("enumerals={:?} first_addition_index={extensible:?}", members.iter().map(|m| format!("{}({})", m.name, m.index)).collect::<Vec<_>>()));
        let ty = ASN1Type::Enumerated(Enumerated { members: members.clone(), extensible, constraints: vec![] });
        let h = Rc::new(RefCell::new(ModuleHeader { name: "M".into(), module_identifier: None, encoding_reference_default: None, tagging_environment: TaggingEnvironment::Automatic, extensibility_environment: ExtensibilityEnvironment::Explicit, imports: vec![], exports: None }));
        let tld = ToplevelDefinition::Type(ToplevelTypeDefinition { comments: String::new(), tag: None, name: "T".into(), ty, parameterization: None, module_header: Some(h) });
        let mut backend = crate::generator::rasn::Rasn::default();
        let generated = match backend.generate_module(vec![tld]) { Ok(m) if m.warnings.is_empty() => m.generated.unwrap_or_default(), _ => { vob!(cx, "C14.generate.enumerated_is_generated", false); return; } };
        let Some((attrs, variants)) = item_of(&generated, "T") else { vob!(cx, "C14.generate.enumerated_is_generated", false); return; };
        vob!(cx, "C14.generate.one_variant_per_enumeral", variants.len() == n);
        if variants.len() != n { return; }
        let mut numbers_ok = true; let mut ident_ok = true; let mut ext_ok = true;
        for (i, v) in variants.iter().enumerate() {
            // `[# [rasn (...)]] <Name> = <number>`
            let decl = match v.rfind(']') { Some(p) => v[p + 1..].trim(), None => v.trim() };
            let mut parts = decl.split('=');
            let rust_name = parts.next().unwrap_or("").trim().to_string();
            let number = parts.next().unwrap_or("").replace(' ', "");
            numbers_ok = numbers_ok && number == members[i].index.to_string();
            let annotation = format!("identifier = \"{}\"", members[i].name);
            ident_ok = ident_ok && !rust_name.is_empty() && (v.contains(&annotation) == (rust_name != members[i].name));
            ext_ok = ext_ok && (v.contains("extension_addition") == extensible.map_or(false, |k| i >= k));
        }
        vob!(cx, "C14.generate.discriminant_is_the_assigned_number_in_order", numbers_ok);
        vob!(cx, "C14.generate.original_identifier_recorded_when_renamed", ident_ok);
        vob!(cx, "C05.generate.enumerated_additions_exactly_after_the_marker", ext_ok);
        vob!(cx, "C05.generate.enumerated_extensible_iff_marker", attrs.contains("non_exhaustive") == extensible.is_some());
    }
    #[cfg(kani)]
    { let _ = cx; }
}

// ------------------------------------------------------------------------------------------------
// C07 — SEQUENCE / SET values: `ASN1Value::link_with_type` -> link_struct_like: a component written in the value
// keeps the written value, an omitted component with DEFAULT takes the default, in the order of the type.
// ------------------------------------------------------------------------------------------------
pub fn contract_struct_value_defaults<C: Ctx>(cx: &mut C) {
    #[cfg(not(kani))]
    {
        use crate::intermediate::types::*;
        use std::collections::BTreeMap;
        let n = 1 + cx.choose(3);
        let mut has_default = [false; 3];
        let mut written = [false; 3];
        for i in 0..n {
            has_default[i] = cx.any_bool();
            written[i] = cx.any_bool();
            // a component without DEFAULT must be written
            if !cx.assume(has_default[i] || written[i]) { return; }
        }
        let reversed = cx.any_bool(); // components written in reverse order (SET values may do that)
        let members: Vec<SequenceOrSetMember> = (0..n).map(|i| SequenceOrSetMember { name: format!("c{i}"), tag: None, ty: ASN1Type::Boolean(Boolean { constraints: vec![] }),
            optionality: if has_default[i] { Optionality::Default(ASN1Value::Boolean(false)) } else { Optionality::Required }, is_recursive: false, constraints: vec![] }).collect();
        let ty = ASN1Type::Sequence(SequenceOrSet { components_of: vec![], extensible: None, constraints: vec![], members });
        let mut fields: Vec<(Option<String>, Box<ASN1Value>)> = (0..n).filter(|i| written[*i]).map(|i| (Some(format!("c{i}")), Box::new(ASN1Value::Boolean(true)))).collect();
        if reversed { fields.reverse(); }
        cx.describe(|| format!("components={n} has_default={:?} written={:?} written_in_reverse_order={reversed}", &has_default[..n], &written[..n]));
        let mut v = ASN1Value::SequenceOrSet(fields);
        let tlds = BTreeMap::new();
        let name = String::from("T");
        let r = v.link_with_type(&tlds, &ty, Some(&name));
        vob!(cx, "C07.struct_value.links", r.is_ok());
        match &v {
            ASN1Value::LinkedStructLikeValue(fs) => {
                vob!(cx, "C07.struct_value.one_field_per_component_in_type_order", fs.len() == n && fs.iter().enumerate().all(|(i, f)| f.0 == format!("c{i}")));
                let mut ok = fs.len() == n;
                for (i, f) in fs.iter().enumerate().take(n) {
                    // written components are TRUE, defaults are FALSE
                    let want = written[i];
                    ok = ok && matches!(f.2.value(), ASN1Value::Boolean(b) if *b == want);
                }
                vob!(cx, "C07.struct_value.written_value_wins_over_default", ok);
            }
            _ => { vob!(cx, "C07.struct_value.becomes_a_linked_struct_value", false); }
        }
    }
    #[cfg(kani)]
    { let _ = cx; }
}


// ------------------------------------------------------------------------------------------------
// C06 — `Integer::int_type` (intermediate/types.rs): the fold over serially applied constraints that picks the width
// of type assignments, SEQUENCE OF element newtypes and constants.  Iterator fold (outside Verus), AST with i128
// (outside Kani) -> bounded stand-in (native): 1..=2 serial range constraints over the width boundaries.
// ------------------------------------------------------------------------------------------------
pub fn contract_int_type_serial<C: Ctx>(cx: &mut C) {
    #[cfg(not(kani))]
    {
        use crate::intermediate::constraints::*;
        use crate::intermediate::types::*;
        const PTS: [i128; 8] = [-129, -128, 0, 10, 255, 256, 65535, 70000];
        let n = 1 + cx.choose(2);
        let mut lo = i128::MIN; let mut hi = i128::MAX; let mut any_marker = false;
        let mut cs = vec![];
        let mut text = String::from("INTEGER");
        for _ in 0..n {
            let l = PTS[cx.choose(8)];
            let h = PTS[cx.choose(8)];
            if !cx.assume(l <= h) { return; }
            let elem_ext = cx.any_bool();
            let outer = cx.any_bool();
            cs.push(Constraint::Subtype(ElementSetSpecs { set: ElementOrSetOperation::Element(SubtypeElements::ValueRange { min: Some(ASN1Value::Integer(l)), max: Some(ASN1Value::Integer(h)), extensible: elem_ext }), extensible: outer }));
            text.push_str(&format!(" ({}{l}..{h}{}{}{})", if outer { "(" } else { "" }, if elem_ext { ", ..." } else { "" }, if outer { ")" } else { "" }, if outer { ", ..." } else { "" }));
            lo = lo.max(l); hi = hi.min(h);
            any_marker = any_marker || elem_ext || outer;
        }
        if !cx.assume(lo <= hi) { return; }
        cx.describe(|| format!("serial_constraints={n} {text}"));
        let t = Integer { constraints: cs, distinguished_values: None }.int_type();
        let fits = |t: IntegerType| match t {
            IntegerType::Uint8 => 0 <= lo && hi <= 255, IntegerType::Int8 => -128 <= lo && hi <= 127,
            IntegerType::Uint16 => 0 <= lo && hi <= 65535, IntegerType::Int16 => -32768 <= lo && hi <= 32767,
            IntegerType::Uint32 => 0 <= lo && hi <= 4294967295, IntegerType::Int32 => -2147483648 <= lo && hi <= 2147483647,
            IntegerType::Uint64 => 0 <= lo && hi <= 18446744073709551615, IntegerType::Int64 => -9223372036854775808 <= lo && hi <= 9223372036854775807,
            IntegerType::Unbounded => true,
        };
        vob!(cx, "C06.int_type.holds_every_permitted_value", fits(t));
        vob!(cx, "C06.int_type.fixed_width_only_without_extension_marker", t == IntegerType::Unbounded || !any_marker);
    }
    #[cfg(kani)]
    { let _ = cx; }
}

// ------------------------------------------------------------------------------------------------
// C02 — "whose Rust type corresponds to the component's ASN.1 type ... DEFAULT components carry a default function":
// Rasn::constraints_and_type_name (component type table), format_sequence_member / format_default_methods
// (generator/rasn).  Bounded stand-in (native): one component of every builtin type (table below, written from the
// rasn prelude's type names), REQUIRED / OPTIONAL / DEFAULT, in SEQUENCE / SET / CHOICE / SEQUENCE OF, in types whose
// ASN.1 names exercise the case conversions (T, PDU-Header, X-info).
// ------------------------------------------------------------------------------------------------
pub fn contract_generate_component_types<C: Ctx>(cx: &mut C) {
    #[cfg(not(kani))]
    {
        use crate::intermediate::types::*;
        use crate::generator::Backend;
        use std::{cell::RefCell, rc::Rc};
        let cs = |t: CharacterStringType| ASN1Type::CharacterString(CharacterString { constraints: vec![], ty: t });
        // (ASN.1 type, rasn type token, DEFAULT value usable for it)
        let table: Vec<(&str, ASN1Type, &str, Option<ASN1Value>)> = vec![
            ("NULL", ASN1Type::Null, "()", None),
            ("BOOLEAN", ASN1Type::Boolean(Boolean { constraints: vec![] }), "bool", Some(ASN1Value::Boolean(true))),
            ("INTEGER", ASN1Type::Integer(Integer { constraints: vec![], distinguished_values: None }), "Integer", Some(ASN1Value::LinkedIntValue { integer_type: IntegerType::Unbounded, value: 1 })),
            ("BIT STRING", ASN1Type::BitString(BitString { constraints: vec![], distinguished_values: None }), "BitString", None),
            ("OCTET STRING", ASN1Type::OctetString(OctetString { constraints: vec![] }), "OctetString", None),
            ("OBJECT IDENTIFIER", ASN1Type::ObjectIdentifier(ObjectIdentifier { constraints: vec![] }), "ObjectIdentifier", None),
            ("UTCTime", ASN1Type::UTCTime(UTCTime { constraints: vec![] }), "UtcTime", None),
            ("GeneralizedTime", ASN1Type::GeneralizedTime(GeneralizedTime { constraints: vec![] }), "GeneralizedTime", None),
            ("UTF8String", cs(CharacterStringType::UTF8String), "Utf8String", None),
            ("IA5String", cs(CharacterStringType::IA5String), "Ia5String", None),
            ("PrintableString", cs(CharacterStringType::PrintableString), "PrintableString", None),
            ("NumericString", cs(CharacterStringType::NumericString), "NumericString", None),
            ("VisibleString", cs(CharacterStringType::VisibleString), "VisibleString", None),
            ("BMPString", cs(CharacterStringType::BMPString), "BmpString", None),
            ("reference", ASN1Type::ElsewhereDeclaredType(DeclarationElsewhere { parent: None, module: None, identifier: "Other-Type".into(), constraints: vec![] }), "OtherType", None),
        ];
        let row = cx.choose(table.len());
        let (asn_name, ty, rust_ty, default_value) = table[row].clone();
        let position = cx.choose(5); // 0 SEQUENCE, 1 SET, 2 CHOICE, 3 element of a SEQUENCE OF component, 4 element of a SET OF component
        let opt = cx.choose(3);      // 0 required, 1 OPTIONAL, 2 DEFAULT
        if !cx.assume(opt != 2 || default_value.is_some()) { return; }
        if !cx.assume(position != 2 || opt == 0) { return; }
        const TYPE_NAMES: [(&str, &str); 3] = [("T", "T"), ("PDU-Header", "PDUHeader"), ("X-info", "XInfo")];
        let (asn_type_name, rust_type_name) = TYPE_NAMES[cx.choose(3)];
        let coll = SequenceOrSetOf { constraints: vec![], element_type: Box::new(ty.clone()), element_tag: None, is_recursive: false };
        let member_ty = if position == 3 { ASN1Type::SequenceOf(coll) } else if position == 4 { ASN1Type::SetOf(coll) } else { ty.clone() };
        // the DEFAULT of a collection component is a list value `{ v }`
        let optionality = match opt { 0 => Optionality::Required, 1 => Optionality::Optional, _ => Optionality::Default(if position >= 3 { ASN1Value::LinkedArrayLikeValue(vec![Box::new(default_value.clone().unwrap())]) } else { default_value.clone().unwrap() }) };
        // the linker's "recursive" mark: only meaningful for references (and, below, anonymous nested types)
        let recursive = asn_name == "reference" && position < 3 && cx.any_bool();
        let outer = if position == 2 {
            ASN1Type::Choice(Choice { extensible: None, constraints: vec![], options: vec![ChoiceOption { name: "f0".into(), tag: None, ty: member_ty, constraints: vec![], is_recursive: recursive }] })
        } else {
            let s = SequenceOrSet { components_of: vec![], extensible: None, constraints: vec![], members: vec![SequenceOrSetMember { name: "f0".into(), tag: None, ty: member_ty, optionality, is_recursive: recursive, constraints: vec![] }] };
            if position == 1 { ASN1Type::Set(s) } else { ASN1Type::Sequence(s) }
        };
        cx.describe(|| format!("{asn_type_name} ::= {} {{ f0 {}{asn_name}{} }}", ["SEQUENCE", "SET", "CHOICE", "SEQUENCE", "SEQUENCE"][position], if position == 3 { "SEQUENCE OF " } else if position == 4 { "SET OF " } else { "" }, ["", " OPTIONAL", " DEFAULT <value>"][opt]) + if recursive { " (component marked recursive)" } else { "" });
        let h = Rc::new(RefCell::new(ModuleHeader { name: "M".into(), module_identifier: None, encoding_reference_default: None, tagging_environment: TaggingEnvironment::Automatic, extensibility_environment: ExtensibilityEnvironment::Explicit, imports: vec![], exports: None }));
        let tld = ToplevelDefinition::Type(ToplevelTypeDefinition { comments: String::new(), tag: None, name: asn_type_name.into(), ty: outer, parameterization: None, module_header: Some(h) });
        let mut backend = crate::generator::rasn::Rasn::default();
        let generated = match backend.generate_module(vec![tld]) { Ok(m) if m.warnings.is_empty() => m.generated.unwrap_or_default(), _ => { vob!(cx, "C02.generate.component_is_generated", false); return; } };
        let Some((_, fields)) = item_of(&generated, rust_type_name) else { vob!(cx, "C02.generate.component_is_generated", false); return; };
        if fields.len() != 1 { vob!(cx, "C02.generate.component_is_generated", false); return; }
        let f = &fields[0];
        let base = if position == 3 { format!("SequenceOf < {rust_ty} >") } else if position == 4 { format!("SetOf < {rust_ty} >") } else if recursive { format!("Box < {rust_ty} >") } else { rust_ty.to_string() };
        let want_ty = if opt == 1 { format!("Option < {base} >") } else { base };
        let got_ty = if position == 2 { { let t = f.rsplit("f0 (").next().unwrap_or("").trim(); t.strip_suffix(')').unwrap_or(t).trim().to_string() } } else { f.rsplit("pub f0 :").next().unwrap_or("").trim().to_string() };
        vob!(cx, "C02.generate.component_rust_type_corresponds_to_the_asn1_type", got_ty == want_ty);
        if opt == 2 {
            // the function named by the default annotation must exist in the generated module
            let named = f.split("default = \"").nth(1).and_then(|r| r.split('"').next()).unwrap_or("");
            vob!(cx, "C02.generate.default_component_names_an_existing_default_function", !named.is_empty() && generated.contains(&format!("fn {named} (")));
            // ... and return the type of the component it is the default of
            vob!(cx, "C02.generate.default_function_returns_the_type_of_the_component", generated.contains(&format!("fn {named} () -> {got_ty} {{")));
        } else {
            vob!(cx, "C02.generate.no_default_annotation_without_default", !f.contains("default ="));
        }
    }
    #[cfg(kani)]
    { let _ = cx; }
}

// ------------------------------------------------------------------------------------------------
// C02 / C03 — frame of `ASN1Type::resolve_class_reference` (validator/linking/mod.rs): replacing object-class field
// types must leave every component's name, order, tag and the extension index untouched.
// Bounded stand-in (native): SEQUENCE / SET / CHOICE with 1..=3 components, each untagged or tagged.
// ------------------------------------------------------------------------------------------------
pub fn contract_resolve_class_reference_frame<C: Ctx>(cx: &mut C) {
    #[cfg(not(kani))]
    {
        use crate::intermediate::types::*;
        use std::collections::BTreeMap;
        let kind = cx.choose(3);
        let n = 1 + cx.choose(3);
        let ext = cx.choose(n + 2);
        let extensible = if ext == 0 { None } else { Some(ext - 1) };
        let mut tags: Vec<Option<AsnTag>> = vec![];
        for i in 0..n {
            tags.push(match cx.choose(3) {
                0 => None,
                1 => Some(AsnTag { environment: TaggingEnvironment::Implicit, tag_class: TagClass::Application, id: 5 + i as u64 }),
                _ => Some(AsnTag { environment: TaggingEnvironment::Explicit, tag_class: TagClass::Private, id: 7 + i as u64 }),
            });
        }
        let b = || ASN1Type::Boolean(Boolean { constraints: vec![] });
        let ty = if kind == 2 {
            ASN1Type::Choice(Choice { extensible, constraints: vec![], options: (0..n).map(|i| ChoiceOption { name: format!("f{i}"), tag: tags[i].clone(), ty: b(), constraints: vec![], is_recursive: false }).collect() })
        } else {
            let s = SequenceOrSet { components_of: vec![], extensible, constraints: vec![], members: (0..n).map(|i| SequenceOrSetMember { name: format!("f{i}"), tag: tags[i].clone(), ty: b(), optionality: Optionality::Optional, is_recursive: false, constraints: vec![] }).collect() };
            if kind == 0 { ASN1Type::Sequence(s) } else { ASN1Type::Set(s) }
        };
        cx.describe(|| format!("kind={} components={n} first_addition_index={extensible:?} tags={:?}", ["SEQUENCE", "SET", "CHOICE"][kind], tags.iter().map(|t| t.as_ref().map(|t| format!("{:?} {}", t.tag_class, t.id))).collect::<Vec<_>>()));
        let tlds = BTreeMap::new();
        let out = ty.resolve_class_reference(&tlds);
        let (names, out_tags, out_ext): (Vec<String>, Vec<Option<AsnTag>>, Option<usize>) = match &out {
            ASN1Type::Choice(c) => (c.options.iter().map(|o| o.name.clone()).collect(), c.options.iter().map(|o| o.tag.clone()).collect(), c.extensible),
            ASN1Type::Sequence(s) | ASN1Type::Set(s) => (s.members.iter().map(|m| m.name.clone()).collect(), s.members.iter().map(|m| m.tag.clone()).collect(), s.extensible),
            _ => (vec![], vec![], None),
        };
        vob!(cx, "C02.resolve_class_reference.components_kept_in_order", names == (0..n).map(|i| format!("f{i}")).collect::<Vec<_>>());
        vob!(cx, "C03.resolve_class_reference.component_tags_kept", out_tags == tags);
        vob!(cx, "C05.resolve_class_reference.extension_index_kept", out_ext == extensible);
        vob!(cx, "C02.resolve_class_reference.kind_kept", matches!((&out, kind), (ASN1Type::Sequence(_), 0) | (ASN1Type::Set(_), 1) | (ASN1Type::Choice(_), 2)));
    }
    #[cfg(kani)]
    { let _ = cx; }
}

#[cfg(not(kani))]
pub fn hook_octet_string_to_bit_string(bytes: &[u8]) -> Vec<bool> { crate::validator::verif_hook_utils::hook_octet_string_to_bit_string(bytes) }
#[cfg(not(kani))]
pub use crate::validator::verif_hook_utils::hook_find_name;
pub fn hook_bit_string_to_octet_string(bits: &[bool]) -> Option<Vec<u8>> { crate::validator::verif_hook_utils::hook_bit_string_to_octet_string(bits) }

// ------------------------------------------------------------------------------------------------
// C03 — "every tag written in the source is applied ... to the corresponding ... element": rendering of the tag on
// a SEQUENCE OF / SET OF element (generator/rasn/builder.rs generate_sequence_or_set_of).  Bounded stand-in (native).
// ------------------------------------------------------------------------------------------------
pub fn contract_generate_element_tag<C: Ctx>(cx: &mut C) {
    #[cfg(not(kani))]
    {
        use crate::intermediate::types::*;
        use crate::generator::Backend;
        use std::{cell::RefCell, rc::Rc};
        let env = any_tagenv(cx);
        let set_of = cx.any_bool();
        let as_component = cx.any_bool();
        let by_reference = cx.any_bool();
        let tagged = cx.any_bool();
        let elem = if by_reference { ASN1Type::ElsewhereDeclaredType(DeclarationElsewhere { parent: None, module: None, identifier: "Foo".into(), constraints: vec![] }) } else { ASN1Type::Boolean(Boolean { constraints: vec![] }) };
        // the element tag as it looks after apply_tagging_environment in a module with default `env`
        let element_tag = if tagged { Some(AsnTag { environment: env, tag_class: TagClass::Private, id: 9 }) } else { None };
        let of = SequenceOrSetOf { constraints: vec![], element_type: Box::new(elem), element_tag, is_recursive: false };
        let coll = if set_of { ASN1Type::SetOf(of) } else { ASN1Type::SequenceOf(of) };
        let ty = if as_component {
            ASN1Type::Sequence(SequenceOrSet { components_of: vec![], extensible: None, constraints: vec![], members: vec![SequenceOrSetMember { name: "a".into(), tag: None, ty: coll, optionality: Optionality::Required, is_recursive: false, constraints: vec![] }] })
        } else { coll };
        cx.describe(|| format!("module_default={env:?} T ::= {}{} OF {}{}{}", if as_component { "SEQUENCE { a " } else { "" }, if set_of { "SET" } else { "SEQUENCE" }, if tagged { "[PRIVATE 9] " } else { "" }, if by_reference { "Foo" } else { "BOOLEAN" }, if as_component { " }" } else { "" }));
        let h = Rc::new(RefCell::new(ModuleHeader { name: "M".into(), module_identifier: None, encoding_reference_default: None, tagging_environment: env, extensibility_environment: ExtensibilityEnvironment::Explicit, imports: vec![], exports: None }));
        let tld = ToplevelDefinition::Type(ToplevelTypeDefinition { comments: String::new(), tag: None, name: "T".into(), ty, parameterization: None, module_header: Some(h) });
        let mut backend = crate::generator::rasn::Rasn::default();
        let generated = match backend.generate_module(vec![tld]) { Ok(m) if m.warnings.is_empty() => m.generated.unwrap_or_default(), _ => { vob!(cx, "C03.generate.collection_is_generated", false); return; } };
        let explicit_form = "tag (explicit (private , 9))";
        let implicit_form = "tag (private , 9)";
        if !tagged {
            vob!(cx, "C03.generate.no_tag_invented_for_untagged_elements", !generated.contains("private"));
        } else if env == TaggingEnvironment::Explicit {
            vob!(cx, "C03.generate.element_tag_is_rendered_with_class_number_and_mode", generated.contains(explicit_form));
        } else {
            vob!(cx, "C03.generate.element_tag_is_rendered_with_class_number_and_mode", generated.contains(implicit_form) && !generated.contains(explicit_form));
        }
    }
    #[cfg(kani)]
    { let _ = cx; }
}

// ================================================================================================
// Parser-level contracts (nom combinators; outside both verifiers) — bounded stand-ins (native) on the real parsers
// ================================================================================================

/// C03 / C05 — module header defaults: `module_header` -> `environments` (lexer/module_header.rs).
/// The TAGS clause and EXTENSIBILITY IMPLIED are independent; each is carried into the header as written.
/// (A header WITHOUT TAGS clause is parsed as IMPLICIT although X.680 §13.2 says EXPLICIT; that is pinned by the
/// unit tests of lexer::module_header and is not asserted here.)
pub fn contract_module_header_parser<C: Ctx>(cx: &mut C) {
    #[cfg(not(kani))]
    {
        let tags = cx.choose(4); // 0 none, 1 AUTOMATIC, 2 IMPLICIT, 3 EXPLICIT
        let implied = cx.any_bool();
        let instructions = cx.any_bool();
        let with_oid = cx.any_bool();
        let src = format!("My-Module {}DEFINITIONS {}{}{}::= BEGIN", if with_oid { "{ iso(1) standard(0) 5 } " } else { "" }, if instructions { "PER INSTRUCTIONS " } else { "" },
            ["", "AUTOMATIC TAGS ", "IMPLICIT TAGS ", "EXPLICIT TAGS "][tags], if implied { "EXTENSIBILITY IMPLIED " } else { "" });
        cx.describe(|| src.clone());
        match crate::lexer::verif_module_header(src.as_str().into()) {
            Ok((_, h)) => {
                vob!(cx, "C03.module_header_parser.module_name_kept", h.name == "My-Module");
                if tags > 0 {
                    vob!(cx, "C03.module_header_parser.tags_clause_as_written", h.tagging_environment == [TaggingEnvironment::Automatic, TaggingEnvironment::Implicit, TaggingEnvironment::Explicit][tags - 1]);
                }
                vob!(cx, "C05.module_header_parser.extensibility_implied_iff_written", (h.extensibility_environment == ExtensibilityEnvironment::Implied) == implied);
            }
            Err(_) => { vob!(cx, "C03.module_header_parser.parses", false); }
        }
    }
    #[cfg(kani)]
    { let _ = cx; }
}

/// C04 — the subtype-expression parser (lexer/constraint.rs `constraints`): operands, every spelling of the set
/// operators, MIN/MAX, and the extension marker.  Expressions `a`, `a op b`, `a op b op c` over single values and ranges.
pub fn contract_constraint_parser<C: Ctx>(cx: &mut C) {
    #[cfg(not(kani))]
    {
        use crate::intermediate::constraints::*;
        // operand: (source text, expected element without marker)
        let operand = |cx: &mut C| -> (String, SubtypeElements) {
            match cx.choose(5) {
                0 => ("5".into(), SubtypeElements::SingleValue { value: ASN1Value::Integer(5), extensible: false }),
                1 => ("-3".into(), SubtypeElements::SingleValue { value: ASN1Value::Integer(-3), extensible: false }),
                2 => ("0..10".into(), SubtypeElements::ValueRange { min: Some(ASN1Value::Integer(0)), max: Some(ASN1Value::Integer(10)), extensible: false }),
                3 => ("MIN..7".into(), SubtypeElements::ValueRange { min: None, max: Some(ASN1Value::Integer(7)), extensible: false }),
                _ => ("-1..MAX".into(), SubtypeElements::ValueRange { min: Some(ASN1Value::Integer(-1)), max: None, extensible: false }),
            }
        };
        const OPS: [(&str, usize); 5] = [("|", 0), ("UNION", 0), ("^", 1), ("INTERSECTION", 1), ("EXCEPT", 2)];
        let want_op = |k: usize| [SetOperator::Union, SetOperator::Intersection, SetOperator::Except][k].clone();
        let n = 1 + cx.choose(3);
        let (t1, e1) = operand(cx);
        let marker = cx.any_bool();
        let mut src = format!("({t1}");
        let mut ops = vec![];
        let mut elems = vec![e1];
        for _ in 1..n {
            let (sym, k) = OPS[cx.choose(5)];
            let (t, e) = operand(cx);
            src.push_str(&format!(" {sym} {t}"));
            ops.push(k);
            elems.push(e);
        }
        if marker { src.push_str(", ..."); }
        src.push(')');
        cx.describe(|| src.clone());
        let parsed = crate::lexer::verif_constraints(src.as_str().into());
        let Ok((_, cs)) = parsed else { vob!(cx, "C04.constraint_parser.parses", false); return; };
        let Some(Constraint::Subtype(spec)) = cs.first() else { vob!(cx, "C04.constraint_parser.parses", false); return; };
        vob!(cx, "C04.constraint_parser.one_constraint_per_parenthesis", cs.len() == 1);
        // flatten the right-nested IR into operands and operators, ignoring where the marker was attached
        let mut got_elems = vec![]; let mut got_ops = vec![]; let mut any_marker = spec.extensible;
        let mut cur = &spec.set;
        loop {
            match cur {
                ElementOrSetOperation::Element(e) => { got_elems.push(e.clone()); break; }
                ElementOrSetOperation::SetOperation(o) => { got_elems.push(o.base.clone()); got_ops.push(o.operator.clone()); cur = &o.operant; }
            }
        }
        let strip = |e: &SubtypeElements, any: &mut bool| -> SubtypeElements { match e {
            SubtypeElements::SingleValue { value, extensible } => { *any = *any || *extensible; SubtypeElements::SingleValue { value: value.clone(), extensible: false } }
            SubtypeElements::ValueRange { min, max, extensible } => { *any = *any || *extensible; SubtypeElements::ValueRange { min: min.clone(), max: max.clone(), extensible: false } }
            other => other.clone(),
        } };
        let got_stripped: Vec<SubtypeElements> = got_elems.iter().map(|e| strip(e, &mut any_marker)).collect();
        vob!(cx, "C04.constraint_parser.operands_in_source_order_with_their_bounds", got_stripped == elems);
        vob!(cx, "C04.constraint_parser.every_spelling_of_the_set_operators", got_ops == ops.iter().map(|k| want_op(*k)).collect::<Vec<_>>());
        // C06: a union parsed as an intersection narrows the range the width is selected from
        vob!(cx, "C06.constraint_parser.union_and_intersection_not_confused", got_ops == ops.iter().map(|k| want_op(*k)).collect::<Vec<_>>());
        vob!(cx, "C04.constraint_parser.extension_marker_iff_written", any_marker == marker);
    }
    #[cfg(kani)]
    { let _ = cx; }
}

/// C07 — cstring literals (lexer/character_string.rs `cstring`): the characters between the quotes, with each
/// doubled quotation mark standing for one quotation mark.
pub fn contract_cstring_parser<C: Ctx>(cx: &mut C) {
    #[cfg(not(kani))]
    {
        // the abstract value is built from pieces; `"` pieces are written doubled in the source
        const PIECES: [&str; 5] = ["a", "\"", " b", "\u{e9}", "-- x"];
        let n = cx.choose(6);
        let mut value = String::new();
        let mut src = String::from("\"");
        for _ in 0..n {
            let p = PIECES[cx.choose(5)];
            value.push_str(p);
            src.push_str(&p.replace('"', "\"\""));
        }
        src.push('"');
        cx.describe(|| format!("source={src} abstract_value={value:?}"));
        // followed by the rest of a real module: nothing, or further literals — one of them with a doubled quote
        let tail = [" END", "\nb UTF8String ::= \"d\"\"e\" END", " \"\" END", "\nc UTF8String ::= \"x\" d UTF8String ::= \"\"\"\" END"][cx.choose(4)];
        let text = format!("{src}{tail}");
        match crate::lexer::verif_cstring(text.as_str().into()) {
            Ok((rest, got)) => {
                vob!(cx, "C07.cstring.characters_kept_and_doubled_quotes_unescaped", got == value);
                // the literal ends at ITS closing quote: what follows is left for the next definition
                vob!(cx, "C07.cstring.literal_ends_at_its_own_closing_quote", rest.into_inner() == tail);
            }
            Err(_) => { vob!(cx, "C07.cstring.parses", false); }
        }
    }
    #[cfg(kani)]
    { let _ = cx; }
}

/// C07 — bstring / hstring literals (lexer/bit_string.rs `bit_string_value`): bit for bit, MSB first per hex digit.
pub fn contract_bitstring_literal_parser<C: Ctx>(cx: &mut C) {
    #[cfg(not(kani))]
    {
        let hex = cx.any_bool();
        let n = cx.choose(4);
        let mut digits = String::new();
        let mut want: Vec<bool> = vec![];
        for _ in 0..n {
            if hex {
                let d = cx.choose(16);
                digits.push(char::from_digit(d as u32, 16).unwrap().to_ascii_uppercase());
                for k in (0..4).rev() { want.push((d >> k) & 1 == 1); }
            } else {
                let b = cx.any_bool();
                digits.push(if b { '1' } else { '0' });
                want.push(b);
            }
        }
        let src = format!("'{digits}'{}", if hex { "H" } else { "B" });
        cx.describe(|| src.clone());
        match crate::lexer::verif_bit_string_value(src.as_str().into()) {
            Ok((_, ASN1Value::BitString(bits))) => { vob!(cx, "C07.bitstring_literal.bit_for_bit", bits == want); }
            _ => { vob!(cx, "C07.bitstring_literal.parses", false); }
        }
    }
    #[cfg(kani)]
    { let _ = cx; }
}

/// C07 — OBJECT IDENTIFIER values: `Rasn::format_oid` (generator/rasn/utils.rs) with arcs in number, name(number)
/// and well-known name form; the emitted arcs are the numbers X.680 §32 / X.660 assign.
pub fn contract_format_oid<C: Ctx>(cx: &mut C) {
    #[cfg(not(kani))]
    {
        // root arc: (name, number, value, root position for subordinate names)
        let root_forms: [(Option<&str>, Option<u128>, u128); 7] = [
            (Some("itu-t"), None, 0), (Some("itu-t"), Some(0), 0), (None, Some(0), 0),
            (Some("iso"), None, 1), (Some("iso"), Some(1), 1), (None, Some(1), 1), (Some("joint-iso-itu-t"), None, 2),
        ];
        let subordinate: [(&str, u128, u128); 10] = [
            ("recommendation", 0, 0), ("question", 0, 1), ("administration", 0, 2), ("network-operator", 0, 3), ("identified-organization", 0, 4), ("r-recommendation", 0, 5),
            ("standard", 1, 0), ("registration-authority", 1, 1), ("member-body", 1, 2), ("identified-organization", 1, 3),
        ];
        let (rname, rnum, rval) = root_forms[cx.choose(7)];
        let mut arcs = vec![ObjectIdentifierArc { name: rname.map(String::from), number: rnum }];
        let mut want = vec![rval];
        // second arc: a well-known subordinate name of THIS root (name only / name(number)), or a plain number
        let second = cx.choose(3);
        let subs: Vec<&(&str, u128, u128)> = subordinate.iter().filter(|s| s.1 == rval).collect();
        if second < 2 && !subs.is_empty() {
            let s = subs[cx.choose(subs.len())];
            arcs.push(ObjectIdentifierArc { name: Some(s.0.into()), number: if second == 1 { Some(s.2) } else { None } });
            want.push(s.2);
        } else {
            arcs.push(ObjectIdentifierArc { name: None, number: Some(840) });
            want.push(840);
        }
        arcs.push(ObjectIdentifierArc { name: Some("leaf".into()), number: Some(113549) });
        want.push(113549);
        cx.describe(|| format!("oid={{ {} }}", arcs.iter().map(|a| match (&a.name, a.number) { (Some(n), Some(v)) => format!("{n}({v})"), (Some(n), None) => n.clone(), (None, Some(v)) => v.to_string(), _ => "?".into() }).collect::<Vec<_>>().join(" ")));
        let backend = crate::generator::rasn::Rasn::default();
        match backend.format_oid(&ObjectIdentifierValue(arcs)) {
            Ok(ts) => {
                let text = ts.to_string();
                let expected = format!("Oid :: const_new (& [{}]) . to_owned ()", want.iter().map(|v| format!("{v}u32")).collect::<Vec<_>>().join(" , "));
                vob!(cx, "C07.format_oid.arcs_are_the_assigned_numbers", text == expected);
            }
            Err(_) => { vob!(cx, "C07.format_oid.renders", false); }
        }
    }
    #[cfg(kani)]
    { let _ = cx; }
}

/// C04 — "named numbers and constrained parent types are resolved": a named number used as a bound of a constraint on
/// a type REFERENCE is resolved against the referenced (governing) type, not against any other type that happens to
/// declare the same identifier: ToplevelDefinition::link_constraint_reference -> ASN1Type::link_constraint_reference
/// (ElsewhereDeclaredType arm) -> Constraint::link_cross_reference -> find_tld_or_enum_value_by_name.
pub fn contract_named_number_through_reference<C: Ctx>(cx: &mut C) {
    #[cfg(not(kani))]
    {
        use crate::intermediate::constraints::*;
        use crate::intermediate::encoding_rules::per_visible::per_visible_range_constraints;
        use crate::intermediate::types::*;
        use std::collections::BTreeMap;
        const NAMES: [&str; 3] = ["Alpha", "Beta", "Gamma"];
        let governing = cx.choose(3);
        let as_component = cx.any_bool();
        // the type under definition sorts before / between / after the declaring types
        let own_name = ["Aaa", "Bzz", "Zzz"][cx.choose(3)];
        let mut tlds: BTreeMap<String, ToplevelDefinition> = BTreeMap::new();
        for (i, n) in NAMES.iter().enumerate() {
            let ty = ASN1Type::Integer(Integer { constraints: vec![], distinguished_values: Some(vec![DistinguishedValue { name: "top".into(), value: 10 * (i as i128 + 1) }]) });
            tlds.insert((*n).into(), ToplevelDefinition::Type(ToplevelTypeDefinition { comments: String::new(), tag: None, name: (*n).into(), ty, parameterization: None, module_header: None }));
        }
        let c = Constraint::Subtype(ElementSetSpecs { set: ElementOrSetOperation::Element(SubtypeElements::ValueRange { min: Some(ASN1Value::Integer(0)), max: Some(ASN1Value::ElsewhereDeclaredValue { module: None, parent: None, identifier: "top".into() }), extensible: false }), extensible: false });
        let reference = ASN1Type::ElsewhereDeclaredType(DeclarationElsewhere { parent: None, module: None, identifier: NAMES[governing].into(), constraints: vec![c] });
        let ty = if as_component {
            ASN1Type::Sequence(SequenceOrSet { components_of: vec![], extensible: None, constraints: vec![], members: vec![SequenceOrSetMember { name: "f".into(), tag: None, ty: reference, optionality: Optionality::Required, is_recursive: false, constraints: vec![] }] })
        } else { reference };
        cx.describe(|| format!("Alpha/Beta/Gamma ::= INTEGER {{ top(10/20/30) }}; {own_name} ::= {}{} (0..top){}", if as_component { "SEQUENCE { f " } else { "" }, NAMES[governing], if as_component { " }" } else { "" }));
        let mut tld = ToplevelDefinition::Type(ToplevelTypeDefinition { comments: String::new(), tag: None, name: own_name.into(), ty, parameterization: None, module_header: None });
        if tld.has_constraint_reference() {
            vob!(cx, "C04.named_number_via_reference.linking_succeeds", tld.link_constraint_reference(&tlds).is_ok());
        }
        let constraints: Vec<Constraint> = match &tld {
            ToplevelDefinition::Type(t) => match &t.ty { ASN1Type::Sequence(s) => s.members[0].ty.constraints().to_vec(), other => other.constraints().to_vec() },
            _ => vec![],
        };
        match per_visible_range_constraints(true, &constraints) {
            Ok(r) => { vob!(cx, "C04.named_number_via_reference.resolved_against_the_referenced_type", r.max::<i128>() == Some(10 * (governing as i128 + 1)) && r.min::<i128>() == Some(0)); }
            Err(_) => { vob!(cx, "C04.named_number_via_reference.range_computable", false); }
        }
    }
    #[cfg(kani)]
    { let _ = cx; }
}

/// C04 — SIZE bounds on character-string components: the known-multiplier types (X.691 §30.1) carry the size
/// annotation of their constraint; Rasn::format_member_or_option's per-type list.
pub fn contract_generate_string_component_size<C: Ctx>(cx: &mut C) {
    #[cfg(not(kani))]
    {
        use crate::intermediate::constraints::*;
        use crate::intermediate::types::*;
        use crate::generator::Backend;
        use std::{cell::RefCell, rc::Rc};
        let kinds = [
            (CharacterStringType::NumericString, true), (CharacterStringType::PrintableString, true), (CharacterStringType::VisibleString, true),
            (CharacterStringType::IA5String, true), (CharacterStringType::BMPString, true), (CharacterStringType::UniversalString, true),
            (CharacterStringType::UTF8String, false), (CharacterStringType::GeneralString, false),
        ];
        let (st, known_multiplier) = kinds[cx.choose(kinds.len())];
        let in_choice = cx.any_bool();
        let ext = cx.any_bool();
        let fixed = cx.any_bool();
        let (lo, hi) = if fixed { (2i128, 2i128) } else { (2, 4) };
        let c = Constraint::Subtype(ElementSetSpecs { set: ElementOrSetOperation::Element(SubtypeElements::SizeConstraint(Box::new(ElementOrSetOperation::Element(
            if fixed { SubtypeElements::SingleValue { value: ASN1Value::Integer(2), extensible: ext } } else { SubtypeElements::ValueRange { min: Some(ASN1Value::Integer(lo)), max: Some(ASN1Value::Integer(hi)), extensible: ext } })))), extensible: false });
        let ty = ASN1Type::CharacterString(CharacterString { constraints: vec![c], ty: st });
        let outer = if in_choice {
            ASN1Type::Choice(Choice { extensible: None, constraints: vec![], options: vec![ChoiceOption { name: "f0".into(), tag: None, ty, constraints: vec![], is_recursive: false }] })
        } else {
            ASN1Type::Sequence(SequenceOrSet { components_of: vec![], extensible: None, constraints: vec![], members: vec![SequenceOrSetMember { name: "f0".into(), tag: None, ty, optionality: Optionality::Required, is_recursive: false, constraints: vec![] }] })
        };
        cx.describe(|| format!("T ::= {} {{ f0 {st:?} (SIZE({}{})) }}", if in_choice { "CHOICE" } else { "SEQUENCE" }, if fixed { "2".to_string() } else { "2..4".to_string() }, if ext { ", ..." } else { "" }));
        let h = Rc::new(RefCell::new(ModuleHeader { name: "M".into(), module_identifier: None, encoding_reference_default: None, tagging_environment: TaggingEnvironment::Automatic, extensibility_environment: ExtensibilityEnvironment::Explicit, imports: vec![], exports: None }));
        let tld = ToplevelDefinition::Type(ToplevelTypeDefinition { comments: String::new(), tag: None, name: "T".into(), ty: outer, parameterization: None, module_header: Some(h) });
        let mut backend = crate::generator::rasn::Rasn::default();
        let generated = match backend.generate_module(vec![tld]) { Ok(m) if m.warnings.is_empty() => m.generated.unwrap_or_default(), _ => { vob!(cx, "C04.generate.string_component_is_generated", false); return; } };
        let Some((_, fields)) = item_of(&generated, "T") else { vob!(cx, "C04.generate.string_component_is_generated", false); return; };
        let range = if fixed { "2".to_string() } else { "2..=4".to_string() };
        let want = if ext { format!("size (\"{range}\" , extensible)") } else { format!("size (\"{range}\")") };
        if known_multiplier {
            vob!(cx, "C04.generate.known_multiplier_string_component_carries_its_size_bound", fields.len() == 1 && fields[0].contains(&want));
        }
    }
    #[cfg(kani)]
    { let _ = cx; }
}

/// C06 — "every integer literal emitted for a value assignment or DEFAULT fits the type it is declared with":
/// `ASN1Value::link_with_type` tags an integer literal with the width of its governing INTEGER type
/// (validator/linking/mod.rs, the `(Integer, Integer)` and `(Integer, LinkedNestedValue{Integer})` arms).
/// Bounded stand-in (native): literal and range ends from the width boundaries, literal inside the range.
pub fn contract_literal_width<C: Ctx>(cx: &mut C) {
    #[cfg(not(kani))]
    {
        use crate::intermediate::constraints::*;
        use crate::intermediate::types::*;
        use std::collections::BTreeMap;
        const PTS: [i128; 12] = [-32769, -129, -128, -1, 0, 127, 128, 255, 256, 65535, 65536, 4294967296];
        let lo = PTS[cx.choose(12)];
        let hi = PTS[cx.choose(12)];
        let v = PTS[cx.choose(12)];
        if !cx.assume(lo <= v && v <= hi) { return; }
        let ext = cx.any_bool();
        let nested = cx.any_bool();
        let c = Constraint::Subtype(ElementSetSpecs { set: ElementOrSetOperation::Element(SubtypeElements::ValueRange { min: Some(ASN1Value::Integer(lo)), max: Some(ASN1Value::Integer(hi)), extensible: ext }), extensible: false });
        let ty = ASN1Type::Integer(Integer { constraints: vec![c], distinguished_values: None });
        let mut value = if nested { ASN1Value::LinkedNestedValue { supertypes: vec![], value: Box::new(ASN1Value::Integer(v)) } } else { ASN1Value::Integer(v) };
        cx.describe(|| format!("INTEGER ({lo}..{hi}{}) literal={v}{}", if ext { ", ..." } else { "" }, if nested { " (reached through a type reference)" } else { "" }));
        let tlds = BTreeMap::new();
        let r = value.link_with_type(&tlds, &ty, None);
        vob!(cx, "C06.literal.links", r.is_ok());
        let linked = match &value { ASN1Value::LinkedNestedValue { value, .. } => (**value).clone(), other => other.clone() };
        match linked {
            ASN1Value::LinkedIntValue { integer_type, value: got } => {
                let fits = match integer_type {
                    IntegerType::Uint8 => (0..=255).contains(&got), IntegerType::Int8 => (-128..=127).contains(&got),
                    IntegerType::Uint16 => (0..=65535).contains(&got), IntegerType::Int16 => (-32768..=32767).contains(&got),
                    IntegerType::Uint32 => (0..=4294967295i128).contains(&got), IntegerType::Int32 => (-2147483648i128..=2147483647).contains(&got),
                    IntegerType::Uint64 => (0..=18446744073709551615i128).contains(&got), IntegerType::Int64 => (-9223372036854775808i128..=9223372036854775807).contains(&got),
                    IntegerType::Unbounded => true,
                };
                vob!(cx, "C06.literal.value_kept", got == v);
                vob!(cx, "C06.literal.fits_the_type_it_is_declared_with", fits);
                vob!(cx, "C06.literal.declared_with_the_width_of_its_governing_type", integer_type == Integer { constraints: ty.constraints().to_vec(), distinguished_values: None }.int_type());
            }
            _ => { vob!(cx, "C06.literal.becomes_a_typed_integer", false); }
        }
    }
    #[cfg(kani)]
    { let _ = cx; }
}

/// C03 — `Rasn::format_tag` (generator/rasn/utils.rs): every class, every mode, the number unchanged.
pub fn contract_format_tag<C: Ctx>(cx: &mut C) {
    #[cfg(not(kani))]
    {
        let class = cx.choose(4);
        let env = any_tagenv(cx);
        let id = [0u64, 1, 30, 31, 127, 16383, u32::MAX as u64][cx.choose(7)];
        let (tc, name) = [(TagClass::Universal, "universal"), (TagClass::Application, "application"), (TagClass::Private, "private"), (TagClass::ContextSpecific, "context")][class];
        cx.describe(|| format!("tag=[{name} {id}] resolved_mode={env:?}"));
        let backend = crate::generator::rasn::Rasn::default();
        let text = backend.format_tag(Some(&AsnTag { environment: env, tag_class: tc, id })).to_string();
        let want = if env == TaggingEnvironment::Explicit { format!("tag (explicit ({name} , {id}))") } else { format!("tag ({name} , {id})") };
        vob!(cx, "C03.format_tag.class_number_and_mode_as_resolved", text == want);
        vob!(cx, "C03.format_tag.no_tag_no_annotation", backend.format_tag(None).to_string().is_empty());
    }
    #[cfg(kani)]
    { let _ = cx; }
}

/// C06 — the assignment path end to end at the generator: `Backend::generate_module` for `A ::= INTEGER (lo..hi[, ...])`
/// (generate_integer -> Integer::int_type -> ToTokens for IntegerType): the newtype wraps the narrowest type holding
/// [lo,hi], Integer when extensible.
pub fn contract_generate_integer_assignment<C: Ctx>(cx: &mut C) {
    #[cfg(not(kani))]
    {
        use crate::intermediate::constraints::*;
        use crate::intermediate::types::*;
        use crate::generator::Backend;
        use std::{cell::RefCell, rc::Rc};
        const PTS: [i128; 16] = [-9223372036854775809, -9223372036854775808, -2147483649, -2147483648, -32769, -32768, -129, -128, 0, 127, 255, 256, 65535, 4294967295, 9223372036854775808, 18446744073709551615];
        let lo = PTS[cx.choose(16)];
        let hi = PTS[cx.choose(16)];
        if !cx.assume(lo <= hi) { return; }
        let ext = cx.any_bool();
        let as_element = cx.any_bool(); // element newtype of `A ::= SEQUENCE OF INTEGER (lo..hi)`
        let c = Constraint::Subtype(ElementSetSpecs { set: ElementOrSetOperation::Element(SubtypeElements::ValueRange { min: Some(ASN1Value::Integer(lo)), max: Some(ASN1Value::Integer(hi)), extensible: ext }), extensible: false });
        let int = ASN1Type::Integer(Integer { constraints: vec![c], distinguished_values: None });
        let ty = if as_element { ASN1Type::SequenceOf(SequenceOrSetOf { constraints: vec![], element_type: Box::new(int), element_tag: None, is_recursive: false }) } else { int };
        cx.describe(|| format!("A ::= {}INTEGER ({lo}..{hi}{})", if as_element { "SEQUENCE OF " } else { "" }, if ext { ", ..." } else { "" }));
        let h = Rc::new(RefCell::new(ModuleHeader { name: "M".into(), module_identifier: None, encoding_reference_default: None, tagging_environment: TaggingEnvironment::Automatic, extensibility_environment: ExtensibilityEnvironment::Explicit, imports: vec![], exports: None }));
        let tld = ToplevelDefinition::Type(ToplevelTypeDefinition { comments: String::new(), tag: None, name: "A".into(), ty, parameterization: None, module_header: Some(h) });
        let mut backend = crate::generator::rasn::Rasn::default();
        let generated = match backend.generate_module(vec![tld]) { Ok(m) if m.warnings.is_empty() => m.generated.unwrap_or_default(), _ => { vob!(cx, "C06.generate.integer_assignment_is_generated", false); return; } };
        let want = if ext { "Integer" } else if lo >= 0 {
            if hi <= 255 { "u8" } else if hi <= 65535 { "u16" } else if hi <= 4294967295 { "u32" } else if hi <= 18446744073709551615 { "u64" } else { "Integer" }
        } else if lo >= -128 && hi <= 127 { "i8" } else if lo >= -32768 && hi <= 32767 { "i16" } else if lo >= -2147483648 && hi <= 2147483647 { "i32" }
          else if lo >= -9223372036854775808 && hi <= 9223372036854775807 { "i64" } else { "Integer" };
        let item = if as_element { "AnonymousA" } else { "A" };
        vob!(cx, "C06.generate.assignment_newtype_wraps_the_narrowest_type_that_holds_the_range", generated.contains(&format!("pub struct {item} (pub {want})")));
    }
    #[cfg(kani)]
    { let _ = cx; }
}

/// C07 — "named numbers, enumerals ... resolved against the governing type": `ASN1Value::link_with_type` with a
/// referenced governing type and an identifier value: a named number / enumeral of the governing type wins over a
/// same-named value assignment elsewhere in the module.
pub fn contract_named_value_resolution<C: Ctx>(cx: &mut C) {
    #[cfg(not(kani))]
    {
        use crate::intermediate::types::*;
        use std::collections::BTreeMap;
        let enumerated = cx.any_bool();
        let shadowed = cx.any_bool();       // a value assignment with the same identifier exists
        let shadow_same_type = shadowed && cx.any_bool();
        let mut tlds: BTreeMap<String, ToplevelDefinition> = BTreeMap::new();
        let level = if enumerated {
            ASN1Type::Enumerated(Enumerated { members: vec![Enumeral { name: "none".into(), description: None, index: 0 }, Enumeral { name: "retries".into(), description: None, index: 1 }], extensible: None, constraints: vec![] })
        } else {
            ASN1Type::Integer(Integer { constraints: vec![], distinguished_values: Some(vec![DistinguishedValue { name: "none".into(), value: 0 }, DistinguishedValue { name: "retries".into(), value: 1 }]) })
        };
        tlds.insert("Level".into(), ToplevelDefinition::Type(ToplevelTypeDefinition { comments: String::new(), tag: None, name: "Level".into(), ty: level, parameterization: None, module_header: None }));
        if shadowed && !shadow_same_type {
            tlds.insert("retries".into(), ToplevelDefinition::Value(ToplevelValueDefinition::from(("retries", ASN1Value::Integer(7), ASN1Type::Integer(Integer { constraints: vec![], distinguished_values: None })))));
        }
        cx.describe(|| format!("Level ::= {} {{ none(0), retries(1) }}; component `level Level DEFAULT retries`{}", if enumerated { "ENUMERATED" } else { "INTEGER" }, if shadowed && !shadow_same_type { "; retries INTEGER ::= 7 also defined" } else { "" }));
        let governing = ASN1Type::ElsewhereDeclaredType(DeclarationElsewhere { parent: None, module: None, identifier: "Level".into(), constraints: vec![] });
        let mut v = ASN1Value::ElsewhereDeclaredValue { module: None, parent: None, identifier: "retries".into() };
        let name = String::from("Config");
        let r = v.link_with_type(&tlds, &governing, Some(&name));
        vob!(cx, "C07.named_value.links", r.is_ok());
        // whatever wrapper the linker uses, the value must denote number 1 / enumeral `retries` of Level — never 7
        fn denotes(v: &ASN1Value) -> String {
            match v {
                ASN1Value::LinkedNestedValue { value, .. } => denotes(value),
                ASN1Value::LinkedIntValue { value, .. } => format!("int:{value}"),
                ASN1Value::Integer(i) => format!("int:{i}"),
                ASN1Value::EnumeratedValue { enumerated, enumerable } => format!("enum:{enumerated}.{enumerable}"),
                ASN1Value::LinkedElsewhereDefinedValue { identifier, .. } | ASN1Value::ElsewhereDeclaredValue { identifier, .. } => format!("ref:{identifier}"),
                other => format!("{other:?}"),
            }
        }
        let d = denotes(&v);
        vob!(cx, "C07.named_value.named_number_of_the_governing_type_wins", if enumerated { d == "enum:Level.retries" } else { d == "int:1" });
        // C06: the literal emitted for the DEFAULT is the governing type's own number (the other value need not fit it)
        vob!(cx, "C06.named_value.default_literal_is_the_governing_types_number", if enumerated { d == "enum:Level.retries" } else { d == "int:1" });
    }
    #[cfg(kani)]
    { let _ = cx; }
}

/// C02 — the linker passes of one definition are independent (validator/mod.rs `Validator::link` via `validate`):
/// recursion marking happens whether or not another component's DEFAULT could be linked (that failure is only a warning).
pub fn contract_validator_marks_recursion_despite_warnings<C: Ctx>(cx: &mut C) {
    #[cfg(not(kani))]
    {
        use crate::intermediate::types::*;
        let default_kind = cx.choose(3); // 0 no DEFAULT, 1 resolvable DEFAULT TRUE, 2 DEFAULT that names an unknown value
        let set = cx.any_bool();
        let optionality = match default_kind {
            0 => Optionality::Required,
            1 => Optionality::Default(ASN1Value::Boolean(true)),
            _ => Optionality::Default(ASN1Value::ElsewhereDeclaredValue { module: None, parent: Some("Settings".into()), identifier: "defaultVisible".into() }),
        };
        let members = vec![
            SequenceOrSetMember { name: "visible".into(), tag: None, ty: ASN1Type::Boolean(Boolean { constraints: vec![] }), optionality, is_recursive: false, constraints: vec![] },
            SequenceOrSetMember { name: "next".into(), tag: None, ty: ASN1Type::ElsewhereDeclaredType(DeclarationElsewhere { parent: None, module: None, identifier: "Node".into(), constraints: vec![] }), optionality: Optionality::Optional, is_recursive: false, constraints: vec![] },
        ];
        let s = SequenceOrSet { components_of: vec![], extensible: None, constraints: vec![], members };
        let tld = ToplevelDefinition::Type(ToplevelTypeDefinition { comments: String::new(), tag: None, name: "Node".into(), ty: if set { ASN1Type::Set(s) } else { ASN1Type::Sequence(s) }, parameterization: None, module_header: None });
        cx.describe(|| format!("Node ::= {} {{ visible BOOLEAN{}, next Node OPTIONAL }}", if set { "SET" } else { "SEQUENCE" }, ["", " DEFAULT TRUE", " DEFAULT Settings.defaultVisible (undefined)"][default_kind]));
        match crate::validator::Validator::new(vec![tld]).validate() {
            Ok((tlds, _warnings)) => {
                let node = tlds.iter().find_map(|t| match t { ToplevelDefinition::Type(t) if t.name == "Node" => Some(t), _ => None });
                match node.map(|n| &n.ty) {
                    Some(ASN1Type::Sequence(s)) | Some(ASN1Type::Set(s)) => {
                        vob!(cx, "C02.validator.components_kept", s.members.len() == 2);
                        vob!(cx, "C02.validator.recursive_component_is_marked_for_boxing", s.members.iter().any(|m| m.name == "next" && m.is_recursive));
                    }
                    // a definition that is dropped with a warning is a C10 matter, not asserted here
                    _ => {}
                }
            }
            Err(_) => {}
        }
    }
    #[cfg(kani)]
    { let _ = cx; }
}

/// C03 — whole pipeline (`Compiler::compile_to_string`): a tag is resolved with the default of the module it was
/// WRITTEN in, also when the component is copied into a type of another module by COMPONENTS OF.
pub fn contract_pipeline_tagging_default_of_the_defining_module<C: Ctx>(cx: &mut C) {
    #[cfg(not(kani))]
    {
        const TAGS: [&str; 3] = ["AUTOMATIC", "IMPLICIT", "EXPLICIT"];
        let a = cx.choose(3);
        let b = cx.choose(3);
        let src = format!("ModA DEFINITIONS {} TAGS ::= BEGIN EXPORTS ALL; Base ::= SEQUENCE {{ a [0] INTEGER, b [1] BOOLEAN }} END\nModB DEFINITIONS {} TAGS ::= BEGIN IMPORTS Base FROM ModA; Ext ::= SEQUENCE {{ COMPONENTS OF Base, c [2] NULL }} Plain ::= SEQUENCE {{ COMPONENTS OF Base, e NULL }} Own ::= SEQUENCE {{ d [3] NULL }} END", TAGS[a], TAGS[b]);
        cx.describe(|| src.clone());
        let out = crate::Compiler::<crate::generator::rasn::Rasn, _>::new().add_asn_literal(&src).compile_to_string();
        let Ok(res) = out else { vob!(cx, "C03.pipeline.compiles", false); return; };
        let g = res.generated;
        let exp = |explicit: bool, n: u32| if explicit { format!("tag (explicit (context , {n}))") } else { format!("tag (context , {n})") };
        // in its own module
        let base = item_of(&g, "Base"); let ext = item_of(&g, "Ext"); let own = item_of(&g, "Own");
        let has = |item: &Option<(String, Vec<String>)>, field: &str, want: &str| item.as_ref().map_or(false, |(_, fs)| fs.iter().any(|f| f.contains(&format!("pub {field} :")) && f.contains(want) && (want.contains("explicit") || !f.contains("explicit"))));
        vob!(cx, "C03.pipeline.tag_resolved_with_the_default_of_its_own_module", has(&base, "a", &exp(a == 2, 0)) && has(&own, "d", &exp(b == 2, 3)) && has(&ext, "c", &exp(b == 2, 2)));
        vob!(cx, "C03.pipeline.copied_component_keeps_the_mode_of_the_module_it_was_written_in", has(&ext, "a", &exp(a == 2, 0)) && has(&ext, "b", &exp(a == 2, 1)));
        // ... also when the including type writes no tag of its own
        let plain = item_of(&g, "Plain");
        vob!(cx, "C03.pipeline.copied_component_keeps_its_tag_in_a_type_without_own_tags", has(&plain, "a", &exp(a == 2, 0)) && has(&plain, "b", &exp(a == 2, 1)));
    }
    #[cfg(kani)]
    { let _ = cx; }
}

/// C04 — a named number used as a bound in the constraint of the very type that declares it
/// (`A ::= INTEGER { max(10) } (0..max)`) is resolved to that type's own number, whatever other types declare the same
/// identifier: Validator::validate -> link (the definition is taken out of the map while it is linked).
pub fn contract_own_named_number<C: Ctx>(cx: &mut C) {
    #[cfg(not(kani))]
    {
        use crate::intermediate::constraints::*;
        use crate::intermediate::encoding_rules::per_visible::per_visible_range_constraints;
        use crate::intermediate::types::*;
        const NAMES: [&str; 3] = ["A", "B", "C"];
        let k = 1 + cx.choose(3);
        let mut same_identifier = [false; 3];
        let mut tlds = vec![];
        for i in 0..k {
            same_identifier[i] = i == 0 || cx.any_bool();
            let ident = if same_identifier[i] { "max".to_string() } else { format!("top{i}") };
            let c = Constraint::Subtype(ElementSetSpecs { set: ElementOrSetOperation::Element(SubtypeElements::ValueRange { min: Some(ASN1Value::Integer(0)), max: Some(ASN1Value::ElsewhereDeclaredValue { module: None, parent: None, identifier: ident.clone() }), extensible: false }), extensible: false });
            let ty = ASN1Type::Integer(Integer { constraints: vec![c], distinguished_values: Some(vec![DistinguishedValue { name: ident, value: 10 * (i as i128 + 1) }]) });
            tlds.push(ToplevelDefinition::Type(ToplevelTypeDefinition { comments: String::new(), tag: None, name: NAMES[i].into(), ty, parameterization: None, module_header: None }));
        }
        cx.describe(|| (0..k).map(|i| format!("{} ::= INTEGER {{ {}({}) }} (0..{})", NAMES[i], if same_identifier[i] { "max".to_string() } else { format!("top{i}") }, 10 * (i + 1), if same_identifier[i] { "max".to_string() } else { format!("top{i}") })).collect::<Vec<_>>().join("  "));
        match crate::validator::Validator::new(tlds).validate() {
            Ok((out, _)) => {
                let mut ok = true;
                for i in 0..k {
                    let got = out.iter().find_map(|t| match t { ToplevelDefinition::Type(t) if t.name == NAMES[i] => per_visible_range_constraints(true, t.ty.constraints()).ok().map(|r| (r.min::<i128>(), r.max::<i128>())), _ => None });
                    ok = ok && got == Some((Some(0), Some(10 * (i as i128 + 1))));
                }
                vob!(cx, "C04.own_named_number.bound_resolved_to_the_types_own_number", ok);
                // C06: the width of the type is chosen from this bound
                vob!(cx, "C06.own_named_number.width_is_chosen_from_the_types_own_bound", ok);
            }
            Err(_) => { vob!(cx, "C04.own_named_number.validates", false); }
        }
    }
    #[cfg(kani)]
    { let _ = cx; }
}

/// C04 — set expressions that involve a contained subtype (`INTEGER (A | 0..5)`, `(A EXCEPT 5)`, `(0..5 ^ A)` with
/// `A ::= INTEGER (0..300)`, already inlined by the linker): whatever the folding makes of the type inclusion, the
/// resulting range must not exclude a value that the expression permits (fold_constraint_set, ContainedSubtype arms).
pub fn contract_contained_subtype_in_set_expression<C: Ctx>(cx: &mut C) {
    #[cfg(not(kani))]
    {
        use crate::intermediate::constraints::*;
        use crate::intermediate::encoding_rules::per_visible::PerVisibleRangeConstraints;
        use crate::intermediate::types::*;
        let inner = Constraint::Subtype(ElementSetSpecs { set: ElementOrSetOperation::Element(SubtypeElements::ValueRange { min: Some(ASN1Value::Integer(0)), max: Some(ASN1Value::Integer(300)), extensible: false }), extensible: false });
        let contained = SubtypeElements::ContainedSubtype { subtype: ASN1Type::Integer(Integer { constraints: vec![inner], distinguished_values: None }), extensible: false };
        let in_a = |v: i128| (0..=300).contains(&v);
        let (other, text, in_x): (SubtypeElements, &str, fn(i128) -> bool) = match cx.choose(4) {
            0 => (SubtypeElements::SingleValue { value: ASN1Value::Integer(5), extensible: false }, "5", |v| v == 5),
            1 => (SubtypeElements::ValueRange { min: Some(ASN1Value::Integer(0)), max: Some(ASN1Value::Integer(5)), extensible: false }, "0..5", |v| (0..=5).contains(&v)),
            2 => (SubtypeElements::ValueRange { min: Some(ASN1Value::Integer(400)), max: Some(ASN1Value::Integer(500)), extensible: false }, "400..500", |v| (400..=500).contains(&v)),
            _ => (SubtypeElements::ValueRange { min: None, max: Some(ASN1Value::Integer(5)), extensible: false }, "MIN..5", |v| v <= 5),
        };
        let op = cx.choose(3);
        let contained_first = cx.any_bool();
        let ops = [SetOperator::Union, SetOperator::Intersection, SetOperator::Except];
        let (base, operant) = if contained_first { (contained, other) } else { (other, contained) };
        cx.describe(|| format!("A ::= INTEGER (0..300); constraint=({})", if contained_first { format!("A {} {text}", ["|", "^", "EXCEPT"][op]) } else { format!("{text} {} A", ["|", "^", "EXCEPT"][op]) }));
        let member = move |v: i128| { let (l, r) = if contained_first { (in_a(v), in_x(v)) } else { (in_x(v), in_a(v)) }; match op { 0 => l || r, 1 => l && r, _ => l && !r } };
        let c = Constraint::Subtype(ElementSetSpecs { set: ElementOrSetOperation::SetOperation(SetOperation { base, operator: ops[op].clone(), operant: Box::new(ElementOrSetOperation::Element(operant)) }), extensible: false });
        let folded: Result<PerVisibleRangeConstraints, _> = (&c).try_into();
        match folded {
            Ok(r) => {
                let (lo, hi): (Option<i128>, Option<i128>) = (r.min(), r.max());
                let inside = |v: i128| lo.map_or(true, |l| l <= v) && hi.map_or(true, |h| v <= h);
                let mut ok = true;
                for v in [-1000i128, -1, 0, 1, 4, 5, 6, 299, 300, 301, 399, 400, 450, 500, 501] { if member(v) && !inside(v) { ok = false; } }
                vob!(cx, "C04.fold.contained_subtype_never_narrows_the_permitted_set", ok);
            }
            // an expression the folding rejects is reported as a warning by the generator; not asserted here
            Err(_) => {}
        }
    }
    #[cfg(kani)]
    { let _ = cx; }
}

/// C02 — COMPONENTS OF (X.680 §25.5): `ASN1Type::link_components_of_notation` copies exactly the ROOT components of
/// the referenced SEQUENCE — not its extension additions — and keeps the including type's own components.
pub fn contract_components_of_import<C: Ctx>(cx: &mut C) {
    #[cfg(not(kani))]
    {
        use crate::intermediate::types::*;
        use std::collections::BTreeMap;
        let n_root = cx.choose(3);
        let base_marker = cx.any_bool();
        let n_add = if base_marker { cx.choose(3) } else { 0 };
        let outer_marker = cx.any_bool();
        let m = |name: String| SequenceOrSetMember { name, tag: None, ty: ASN1Type::Boolean(Boolean { constraints: vec![] }), optionality: Optionality::Optional, is_recursive: false, constraints: vec![] };
        let mut members: Vec<SequenceOrSetMember> = (0..n_root).map(|i| m(format!("r{i}"))).collect();
        members.extend((0..n_add).map(|i| m(format!("x{i}"))));
        let base = ASN1Type::Sequence(SequenceOrSet { components_of: vec![], extensible: if base_marker { Some(n_root) } else { None }, constraints: vec![], members });
        let mut tlds: BTreeMap<String, ToplevelDefinition> = BTreeMap::new();
        tlds.insert("Base".into(), ToplevelDefinition::Type(ToplevelTypeDefinition { comments: String::new(), tag: None, name: "Base".into(), ty: base, parameterization: None, module_header: None }));
        let mut outer = ASN1Type::Sequence(SequenceOrSet { components_of: vec!["Base".into()], extensible: if outer_marker { Some(1) } else { None }, constraints: vec![], members: vec![m("z".into())] });
        cx.describe(|| format!("Base ::= SEQUENCE {{ {} root components{} }}; Outer ::= SEQUENCE {{ z BOOLEAN, COMPONENTS OF Base{} }}", n_root, if base_marker { format!(", ..., {n_add} additions") } else { String::new() }, if outer_marker { ", ..." } else { "" }));
        let linked = outer.link_components_of_notation(&tlds);
        vob!(cx, "C02.components_of.linking_reported", linked);
        if let ASN1Type::Sequence(s) = &outer {
            let mut names: Vec<String> = s.members.iter().map(|x| x.name.clone()).collect();
            names.sort();
            let mut want: Vec<String> = std::iter::once("z".to_string()).chain((0..n_root).map(|i| format!("r{i}"))).collect();
            want.sort();
            vob!(cx, "C02.components_of.exactly_the_root_components_are_imported_once", names == want);
        }
    }
    #[cfg(kani)]
    { let _ = cx; }
}

/// every `pub struct <name> { .. }` of the generated text: (name, attributes before it, fields as written)
#[cfg(not(kani))]
fn struct_items(generated: &str) -> Vec<(String, String, Vec<String>)> {
    let mut out = vec![];
    let mut from = 0;
    while let Some(p) = generated[from..].find("pub struct ") {
        let start = from + p + "pub struct ".len();
        let name: String = generated[start..].chars().take_while(|c| c.is_alphanumeric() || *c == '_').collect();
        from = start;
        if generated[start + name.len()..].trim_start().starts_with('{') {
            if let Some((attrs, fields)) = item_of(generated, &name) { out.push((name, attrs, fields)); }
        }
    }
    out
}

/// C02 / C05 — COMPONENTS OF wherever X.680 allows a component list (whole pipeline, `Compiler::compile_to_string`):
/// every SEQUENCE / SET that writes `COMPONENTS OF Base` — at top level, in an alternative of a CHOICE, in several
/// components or alternatives of the same type, as the element of a SEQUENCE OF / SET OF, below a CHOICE below a
/// SEQUENCE — is generated with its own component plus exactly the root components of every referenced type; and with
/// a marker that nothing follows, none of them is an extension addition.
pub fn contract_components_of_placement<C: Ctx>(cx: &mut C) {
    #[cfg(not(kani))]
    {
        let set = cx.any_bool();
        let placement = cx.choose(7);
        let two_clauses = cx.any_bool();
        let marker = cx.any_bool();
        let base_marker = cx.any_bool();
        let kw = if set { "SET" } else { "SEQUENCE" };
        let holder = |own: &str| format!("{kw} {{ {own} INTEGER, COMPONENTS OF Base{}{} }}", if two_clauses { ", COMPONENTS OF Second" } else { "" }, if marker { ", ..." } else { "" });
        let (t, n_holders) = match placement {
            0 => (holder("own"), 1),
            1 => (format!("CHOICE {{ a {}, b NULL }}", holder("own")), 1),
            2 => (format!("SEQUENCE {{ a {}, b {} }}", holder("own"), holder("own")), 2),
            3 => (format!("SEQUENCE OF {}", holder("own")), 1),
            4 => (format!("SET OF {}", holder("own")), 1),
            5 => (format!("CHOICE {{ a {}, b {}, c {} }}", holder("own"), holder("own"), holder("own")), 3),
            _ => (format!("SEQUENCE {{ id INTEGER, body CHOICE {{ full {}, none NULL }} OPTIONAL }}", holder("own")), 1),
        };
        let src = format!("M DEFINITIONS AUTOMATIC TAGS ::= BEGIN Base ::= {kw} {{ p1 INTEGER, p2 BOOLEAN, p3 NULL{} }} Second ::= {kw} {{ q1 BOOLEAN }} T ::= {t} END", if base_marker { ", ..., x1 NULL" } else { "" });
        cx.describe(|| src.clone());
        let out = crate::Compiler::<crate::generator::rasn::Rasn, _>::new().add_asn_literal(&src).compile_to_string();
        let Ok(res) = out else { vob!(cx, "C02.components_of_placement.compiles", false); return; };
        let holders: Vec<(String, String, Vec<String>)> = struct_items(&res.generated).into_iter().filter(|(_, _, fs)| fs.iter().any(|f| f.contains("pub own :"))).collect();
        let mut want: Vec<&str> = vec!["own", "p1", "p2", "p3"];
        if two_clauses { want.push("q1"); }
        want.sort();
        let names = |fs: &Vec<String>| { let mut v: Vec<String> = fs.iter().filter_map(|f| f.split("pub ").nth(1).and_then(|r| r.split(" :").next()).map(|n| n.trim().to_string())).collect(); v.sort(); v };
        vob!(cx, "C02.components_of_placement.every_including_type_is_generated", holders.len() == n_holders);
        vob!(cx, "C02.components_of_placement.own_plus_exactly_the_root_components_of_every_clause", holders.iter().all(|(_, _, fs)| names(fs) == want));
        // nothing follows the marker: no component is an extension addition
        vob!(cx, "C05.components_of_placement.components_before_the_marker_are_not_extension_additions", holders.iter().all(|(_, _, fs)| fs.iter().all(|f| !f.contains("extension_addition"))));
        vob!(cx, "C05.components_of_placement.extensible_iff_marker", holders.iter().all(|(_, attrs, _)| attrs.contains("non_exhaustive") == marker));
    }
    #[cfg(kani)]
    { let _ = cx; }
}

/// C02 — collections of collections keep their kind: `Rasn::generate_sequence_or_set_of` for
/// `T ::= {SEQUENCE|SET} OF {SEQUENCE|SET} OF <element>` (element BOOLEAN or a type reference).
pub fn contract_generate_nested_collections<C: Ctx>(cx: &mut C) {
    #[cfg(not(kani))]
    {
        use crate::intermediate::types::*;
        use crate::generator::Backend;
        use std::{cell::RefCell, rc::Rc};
        let outer_set = cx.any_bool();
        let inner_set = cx.any_bool();
        let by_reference = cx.any_bool();
        let as_component = cx.any_bool();
        let elem = if by_reference { ASN1Type::ElsewhereDeclaredType(DeclarationElsewhere { parent: None, module: None, identifier: "Row".into(), constraints: vec![] }) } else { ASN1Type::Boolean(Boolean { constraints: vec![] }) };
        let of = |set: bool, e: ASN1Type| { let o = SequenceOrSetOf { constraints: vec![], element_type: Box::new(e), element_tag: None, is_recursive: false }; if set { ASN1Type::SetOf(o) } else { ASN1Type::SequenceOf(o) } };
        let coll = of(outer_set, of(inner_set, elem));
        let ty = if as_component { ASN1Type::Sequence(SequenceOrSet { components_of: vec![], extensible: None, constraints: vec![], members: vec![SequenceOrSetMember { name: "f0".into(), tag: None, ty: coll, optionality: Optionality::Required, is_recursive: false, constraints: vec![] }] }) } else { coll };
        cx.describe(|| format!("T ::= {}{} OF {} OF {}{}", if as_component { "SEQUENCE { f0 " } else { "" }, if outer_set { "SET" } else { "SEQUENCE" }, if inner_set { "SET" } else { "SEQUENCE" }, if by_reference { "Row" } else { "BOOLEAN" }, if as_component { " }" } else { "" }));
        let h = Rc::new(RefCell::new(ModuleHeader { name: "M".into(), module_identifier: None, encoding_reference_default: None, tagging_environment: TaggingEnvironment::Automatic, extensibility_environment: ExtensibilityEnvironment::Explicit, imports: vec![], exports: None }));
        let tld = ToplevelDefinition::Type(ToplevelTypeDefinition { comments: String::new(), tag: None, name: "T".into(), ty, parameterization: None, module_header: Some(h) });
        let mut backend = crate::generator::rasn::Rasn::default();
        let generated = match backend.generate_module(vec![tld]) { Ok(m) if m.warnings.is_empty() => m.generated.unwrap_or_default(), _ => { vob!(cx, "C02.generate.nested_collection_is_generated", false); return; } };
        // count the collection wrappers that appear in the generated items for T (outer first)
        // for a component only the field's type counts (the constructor repeats it)
        let scope: String = if as_component { item_of(&generated, "T").map(|(_, f)| f.join(" , ")).unwrap_or_default() } else { generated.clone() };
        let kinds: Vec<&str> = scope.match_indices("Of <").map(|(i, _)| if scope[..i].ends_with("Set") { "Set" } else { "Sequence" }).collect();
        let n_set = kinds.iter().filter(|k| **k == "Set").count();
        vob!(cx, "C02.generate.set_of_and_sequence_of_are_kept_at_every_level", kinds.len() == 2 && n_set == (outer_set as usize + inner_set as usize));
    }
    #[cfg(kani)]
    { let _ = cx; }
}

/// C03 — a tag on a type assignment of a builtin type: explicit exactly when the resolved mode is EXPLICIT, or the
/// type is a CHOICE or an open type (X.680 §31.2.7 c); EXTERNAL / EMBEDDED PDV / ANY are ordinary types.
pub fn contract_generate_tagged_assignment<C: Ctx>(cx: &mut C) {
    #[cfg(not(kani))]
    {
        use crate::intermediate::types::*;
        use crate::generator::Backend;
        use std::{cell::RefCell, rc::Rc};
        let env = any_tagenv(cx);
        use crate::intermediate::constraints::*;
        let range_c = |lo: i128, hi: i128| Constraint::Subtype(ElementSetSpecs { set: ElementOrSetOperation::Element(SubtypeElements::ValueRange { min: Some(ASN1Value::Integer(lo)), max: Some(ASN1Value::Integer(hi)), extensible: false }), extensible: false });
        let size_c = |lo: i128, hi: i128| Constraint::Subtype(ElementSetSpecs { set: ElementOrSetOperation::Element(SubtypeElements::SizeConstraint(Box::new(ElementOrSetOperation::Element(if lo == hi { SubtypeElements::SingleValue { value: ASN1Value::Integer(lo), extensible: false } } else { SubtypeElements::ValueRange { min: Some(ASN1Value::Integer(lo)), max: Some(ASN1Value::Integer(hi)), extensible: false } })))), extensible: false });
        let kinds: Vec<(&str, ASN1Type)> = vec![
            ("NULL", ASN1Type::Null), ("BOOLEAN", ASN1Type::Boolean(Boolean { constraints: vec![] })), ("INTEGER", ASN1Type::Integer(Integer { constraints: vec![], distinguished_values: None })),
            ("OCTET STRING", ASN1Type::OctetString(OctetString { constraints: vec![] })), ("BIT STRING", ASN1Type::BitString(BitString { constraints: vec![], distinguished_values: None })),
            ("EXTERNAL", ASN1Type::External), ("EMBEDDED PDV", ASN1Type::EmbeddedPdv), ("UTF8String", ASN1Type::CharacterString(CharacterString { constraints: vec![], ty: CharacterStringType::UTF8String })),
            ("OBJECT IDENTIFIER", ASN1Type::ObjectIdentifier(ObjectIdentifier { constraints: vec![] })),
            ("SEQUENCE OF BOOLEAN", ASN1Type::SequenceOf(SequenceOrSetOf { constraints: vec![], element_type: Box::new(ASN1Type::Boolean(Boolean { constraints: vec![] })), element_tag: None, is_recursive: false })),
            ("ENUMERATED", ASN1Type::Enumerated(Enumerated { members: vec![Enumeral { name: "a".into(), description: None, index: 0 }], extensible: None, constraints: vec![] })),
            ("type reference", ASN1Type::ElsewhereDeclaredType(DeclarationElsewhere { parent: None, module: None, identifier: "Other".into(), constraints: vec![] })),
            ("SET OF INTEGER", ASN1Type::SetOf(SequenceOrSetOf { constraints: vec![], element_type: Box::new(ASN1Type::Integer(Integer { constraints: vec![], distinguished_values: None })), element_tag: None, is_recursive: false })),
            ("SEQUENCE OF SEQUENCE { x NULL }", ASN1Type::SequenceOf(SequenceOrSetOf { constraints: vec![], element_type: Box::new(ASN1Type::Sequence(SequenceOrSet { components_of: vec![], extensible: None, constraints: vec![], members: vec![SequenceOrSetMember { name: "x".into(), tag: None, ty: ASN1Type::Null, optionality: Optionality::Required, is_recursive: false, constraints: vec![] }] })), element_tag: None, is_recursive: false })),
            ("SEQUENCE OF Other", ASN1Type::SequenceOf(SequenceOrSetOf { constraints: vec![], element_type: Box::new(ASN1Type::ElsewhereDeclaredType(DeclarationElsewhere { parent: None, module: None, identifier: "Other".into(), constraints: vec![] })), element_tag: None, is_recursive: false })),
            // constrained forms take other branches of the generator (fixed-size strings, ranges)
            ("OCTET STRING (SIZE(16))", ASN1Type::OctetString(OctetString { constraints: vec![size_c(16, 16)] })),
            ("OCTET STRING (SIZE(1..4))", ASN1Type::OctetString(OctetString { constraints: vec![size_c(1, 4)] })),
            ("BIT STRING (SIZE(8))", ASN1Type::BitString(BitString { constraints: vec![size_c(8, 8)], distinguished_values: None })),
            ("BIT STRING (SIZE(1..4))", ASN1Type::BitString(BitString { constraints: vec![size_c(1, 4)], distinguished_values: None })),
            ("INTEGER (0..5)", ASN1Type::Integer(Integer { constraints: vec![range_c(0, 5)], distinguished_values: None })),
            ("IA5String (SIZE(2))", ASN1Type::CharacterString(CharacterString { constraints: vec![size_c(2, 2)], ty: CharacterStringType::IA5String })),
            ("Other (0..5)", ASN1Type::ElsewhereDeclaredType(DeclarationElsewhere { parent: None, module: None, identifier: "Other".into(), constraints: vec![range_c(0, 5)] })),
        ];
        let (name, ty) = kinds[cx.choose(kinds.len())].clone();
        // type references whose Rust name differs from the ASN.1 name carry an identifier annotation next to the tag
        let type_name = ["T", "Msg-Id", "AS-REQ", "type"][cx.choose(4)];
        // the tag as it looks after apply_tagging_environment: keyword-less in a module with default `env`
        let tag = AsnTag { environment: env, tag_class: TagClass::Application, id: 8 };
        cx.describe(|| format!("module_default={env:?} {type_name} ::= [APPLICATION 8] {name}"));
        let h = Rc::new(RefCell::new(ModuleHeader { name: "M".into(), module_identifier: None, encoding_reference_default: None, tagging_environment: env, extensibility_environment: ExtensibilityEnvironment::Explicit, imports: vec![], exports: None }));
        let tld = ToplevelDefinition::Type(ToplevelTypeDefinition { comments: String::new(), tag: Some(tag), name: type_name.into(), ty, parameterization: None, module_header: Some(h) });
        let mut backend = crate::generator::rasn::Rasn::default();
        let generated = match backend.generate_module(vec![tld]) { Ok(m) if m.warnings.is_empty() => m.generated.unwrap_or_default(), _ => { vob!(cx, "C03.generate.tagged_assignment_is_generated", false); return; } };
        let explicit_form = "tag (explicit (application , 8))";
        let implicit_form = "tag (application , 8)";
        vob!(cx, "C03.generate.tagged_builtin_assignment_explicit_iff_resolved_mode_is_explicit",
            if env == TaggingEnvironment::Explicit { generated.contains(explicit_form) } else { generated.contains(implicit_form) && !generated.contains(explicit_form) });
        // the tag belongs to the assigned type alone: an anonymous element type hoisted out of it is not tagged
        vob!(cx, "C03.generate.tag_of_the_assignment_is_applied_to_that_type_only", generated.matches("application , 8").count() == 1);
    }
    #[cfg(kani)]
    { let _ = cx; }
}

/// C03 — the tag of a component / alternative is rendered with ITS class, number and mode for every class
/// (`Rasn::format_member_or_option` -> `format_tag`), also inside an anonymous nested type.
pub fn contract_member_tag_classes<C: Ctx>(cx: &mut C) {
    #[cfg(not(kani))]
    {
        use crate::intermediate::types::*;
        use crate::generator::Backend;
        use std::{cell::RefCell, rc::Rc};
        let kind = cx.choose(3);
        let nested = cx.any_bool();
        let class = [TagClass::ContextSpecific, TagClass::Application, TagClass::Private, TagClass::Universal][cx.choose(4)];
        let mode = any_tagenv(cx);   // the tag's resolved mode
        let id = [0u64, 4, 30, 31, 200][cx.choose(5)];
        let member_ty = [ASN1Type::Boolean(Boolean { constraints: vec![] }), ASN1Type::CharacterString(CharacterString { constraints: vec![], ty: CharacterStringType::UTF8String }), ASN1Type::ElsewhereDeclaredType(DeclarationElsewhere { parent: None, module: None, identifier: "Other".into(), constraints: vec![] })][cx.choose(3)].clone();
        let tag = AsnTag { environment: mode, tag_class: class, id };
        let wrap = |ty: ASN1Type, tag: Option<AsnTag>, name: &str| -> ASN1Type {
            match kind {
                2 => ASN1Type::Choice(Choice { extensible: None, constraints: vec![], options: vec![ChoiceOption { name: name.into(), tag, ty, constraints: vec![], is_recursive: false }] }),
                k => { let s = SequenceOrSet { components_of: vec![], extensible: None, constraints: vec![], members: vec![SequenceOrSetMember { name: name.into(), tag, ty, optionality: Optionality::Required, is_recursive: false, constraints: vec![] }] }; if k == 1 { ASN1Type::Set(s) } else { ASN1Type::Sequence(s) } }
            }
        };
        let ty = if nested { wrap(wrap(member_ty, Some(tag.clone()), "f0"), None, "outer") } else { wrap(member_ty, Some(tag.clone()), "f0") };
        cx.describe(|| format!("{} {{ {}f0 [{class:?} {id}] ({mode:?}) <type> }}", ["SEQUENCE", "SET", "CHOICE"][kind], if nested { "outer <same kind> { " } else { "" }));
        let h = Rc::new(RefCell::new(ModuleHeader { name: "M".into(), module_identifier: None, encoding_reference_default: None, tagging_environment: TaggingEnvironment::Explicit, extensibility_environment: ExtensibilityEnvironment::Explicit, imports: vec![], exports: None }));
        let tld = ToplevelDefinition::Type(ToplevelTypeDefinition { comments: String::new(), tag: None, name: "T".into(), ty, parameterization: None, module_header: Some(h) });
        let mut backend = crate::generator::rasn::Rasn::default();
        let generated = match backend.generate_module(vec![tld]) { Ok(m) if m.warnings.is_empty() => m.generated.unwrap_or_default(), _ => { vob!(cx, "C03.generate.tagged_member_is_generated", false); return; } };
        let cls = match class { TagClass::ContextSpecific => "context", TagClass::Application => "application", TagClass::Private => "private", TagClass::Universal => "universal" };
        let want = if mode == TaggingEnvironment::Explicit { format!("tag (explicit ({cls} , {id}))") } else { format!("tag ({cls} , {id})") };
        let holder = if nested { "TOuter" } else { "T" };
        let field = item_of(&generated, holder).and_then(|(_, fs)| fs.into_iter().find(|f| f.contains("f0")));
        vob!(cx, "C03.generate.member_tag_is_rendered_with_its_class_number_and_mode", matches!(&field, Some(f) if f.contains(&want) && (mode == TaggingEnvironment::Explicit || !f.contains("explicit"))));
    }
    #[cfg(kani)]
    { let _ = cx; }
}

/// C02 — a parameterized type is instantiated with its actual parameter in EVERY component position: plain component,
/// element of SEQUENCE OF / SET OF, alternative of a nested CHOICE, OPTIONAL (whole pipeline: resolve_parameters ->
/// ASN1Type::link_elsewhere_declared).
pub fn contract_parameterized_components<C: Ctx>(cx: &mut C) {
    #[cfg(not(kani))]
    {
        let (actual, rust) = [("INTEGER", "Integer"), ("BOOLEAN", "bool"), ("Other", "Other")][cx.choose(3)];
        let set = cx.any_bool();
        let kw = if set { "SET" } else { "SEQUENCE" };
        let src = format!("M DEFINITIONS AUTOMATIC TAGS ::= BEGIN Other ::= NULL Pair {{T}} ::= {kw} {{ first T, opt T OPTIONAL, list SEQUENCE OF T, bag SET OF T, alt CHOICE {{ one T, many SET OF T, more SEQUENCE OF T }} }} Inst ::= Pair {{ {actual} }} T ::= OCTET STRING upper INTEGER ::= 10 Bounded {{ INTEGER: upper }} ::= INTEGER (0..upper) Wide ::= Bounded {{ 300 }} Color ::= ENUMERATED {{ red(1), green(2) }} WrapE {{ Color }} ::= SEQUENCE {{ c Color }} Impl ::= WrapE {{ ENUMERATED {{ blue(7), pink, ..., teal, grey(3) }} }} Wrap {{T}} ::= SEQUENCE {{ w T }} Holder ::= SEQUENCE {{ list SEQUENCE OF SEQUENCE {{ item Wrap {{ {actual} }}, n INTEGER }} }} Top ::= SET OF SEQUENCE {{ item Wrap {{ {actual} }} }} END");
        cx.describe(|| src.clone());
        let out = crate::Compiler::<crate::generator::rasn::Rasn, _>::new().add_asn_literal(&src).compile_to_string();
        let Ok(res) = out else { vob!(cx, "C02.parameterized.compiles", false); return; };
        let fields = item_of(&res.generated, "Inst").map(|(_, f)| f).unwrap_or_default();
        let alts = item_of(&res.generated, "InstAlt").map(|(_, f)| f).unwrap_or_default();
        let has = |fs: &Vec<String>, name: &str, ty: &str| fs.iter().any(|f| (f.contains(&format!("pub {name} : {ty}")) && f.trim_end().ends_with(ty)) || f.trim_end().ends_with(&format!("{name} ({ty})")));
        vob!(cx, "C02.parameterized.every_component_position_gets_the_actual_parameter",
            has(&fields, "first", rust) && has(&fields, "opt", &format!("Option < {rust} >")) && has(&fields, "list", &format!("SequenceOf < {rust} >")) && has(&fields, "bag", &format!("SetOf < {rust} >"))
            && has(&alts, "one", rust) && has(&alts, "many", &format!("SetOf < {rust} >")) && has(&alts, "more", &format!("SequenceOf < {rust} >")));
        // a parameterized reference inside a constructed ELEMENT type of a collection is instantiated as well: no field may
        // name the uninstantiated template `Wrap`
        vob!(cx, "C02.parameterized.reference_inside_a_collection_element_is_instantiated", !res.generated.contains(": Wrap ,") && !res.generated.contains(": Wrap }") && res.generated.contains("pub item :"));
        // a module-level `T` / `upper` of the same name as a dummy reference does not capture the parameter
        vob!(cx, "C02.parameterized.actual_parameter_wins_over_a_same_named_definition", res.generated.contains("pub struct Wide (pub u16)") && res.generated.contains("value (\"0..=300\")"));
        vob!(cx, "C06.parameterized.width_is_chosen_from_the_actual_parameter", res.generated.contains("pub struct Wide (pub u16)"));
        let enum_items: Vec<String> = item_of(&res.generated, "ImplC").map(|(_, vs)| vs.iter().map(|v| { let d = match v.rfind(']') { Some(p) => v[p + 1..].trim(), None => v.trim() }; d.replace(' ', "") }).collect()).unwrap_or_default();
        vob!(cx, "C14.parameterized.enumerated_passed_as_a_parameter_keeps_its_own_enumerals", enum_items == ["blue=7", "pink=0", "teal=1", "grey=3"]);
        vob!(cx, "C02.parameterized.no_dummy_parameter_survives", !res.generated.contains("< T >") && !res.generated.contains("(T)") && !res.generated.contains(": T ,"));
    }
    #[cfg(kani)]
    { let _ = cx; }
}

/// C14 — explicit numbers of any magnitude the lexer accepts are kept exactly (whole pipeline): numbers around 2^31, 2^63,
/// 2^64 and -2^63, next to identifier-only items.
pub fn contract_enumerated_large_numbers<C: Ctx>(cx: &mut C) {
    #[cfg(not(kani))]
    {
        const BIG: [i128; 8] = [2147483647, 2147483648, 9223372036854775807, 9223372036854775808, 18446744073709551615, -2147483649, -9223372036854775808, -9223372036854775809];
        let a = BIG[cx.choose(8)];
        let b = BIG[cx.choose(8)];
        if !cx.assume(a != b) { return; }
        let addition = cx.any_bool();
        let src = format!("M DEFINITIONS AUTOMATIC TAGS ::= BEGIN E ::= ENUMERATED {{ low(-1), mid, big({a}){}other({b}), last }} END", if addition { ", ..., " } else { ", " });
        cx.describe(|| src.clone());
        let out = crate::Compiler::<crate::generator::rasn::Rasn, _>::new().add_asn_literal(&src).compile_to_string();
        let Ok(res) = out else { vob!(cx, "C14.large_numbers.compiles", false); return; };
        let Some((_, variants)) = item_of(&res.generated, "E") else { vob!(cx, "C14.large_numbers.compiles", false); return; };
        let number_of = |name: &str| variants.iter().find_map(|v| { let d = match v.rfind(']') { Some(p) => v[p + 1..].trim(), None => v.trim() }; let mut p = d.split('='); if p.next().map(|n| n.trim()) == Some(name) { p.next().map(|n| n.replace(' ', "")) } else { None } });
        vob!(cx, "C14.large_numbers.explicit_numbers_are_kept_exactly", number_of("big") == Some(a.to_string()) && number_of("other") == Some(b.to_string()) && number_of("low") == Some("-1".to_string()) && number_of("mid") == Some("0".to_string()));
    }
    #[cfg(kani)]
    { let _ = cx; }
}

/// C03 — the property's own configuration space, point by point, through the whole pipeline (`Compiler::compile_to_string`):
/// module default {EXPLICIT, IMPLICIT, AUTOMATIC, no TAGS clause} x tag keyword {none, IMPLICIT, EXPLICIT} x class
/// {context, APPLICATION, PRIVATE, UNIVERSAL} x position {type assignment, SEQUENCE / SET component, CHOICE alternative,
/// component of an anonymous nested type, SEQUENCE OF / SET OF element} x tagged type {primitive, referenced SEQUENCE,
/// referenced CHOICE, inline CHOICE, open type}.  X.680 §31.2.7: explicit iff EXPLICIT keyword, or no keyword under an
/// EXPLICIT (or absent) TAGS default, or the tagged type is a CHOICE / open type (for those the rasn runtime wraps
/// explicitly whatever the annotation says, so both spellings are accepted when the rule does not already demand explicit).
pub fn contract_pipeline_tag_matrix<C: Ctx>(cx: &mut C) {
    #[cfg(not(kani))]
    {
        let d = cx.choose(4);
        let k = cx.choose(3);
        let c = cx.choose(4);
        let p = cx.choose(7);
        let t = cx.choose(5);
        let header = ["EXPLICIT TAGS ", "IMPLICIT TAGS ", "AUTOMATIC TAGS ", ""][d];
        let kw = ["", "IMPLICIT ", "EXPLICIT "][k];
        let (class_src, class_out) = [("", "context"), ("APPLICATION ", "application"), ("PRIVATE ", "private"), ("UNIVERSAL ", "universal")][c];
        let n = [[3u32, 17, 5, 30][c], 31, 200][cx.choose(3)];
        // what else is written next to the tag: nothing, a constraint on the tagged type, OPTIONAL on the component
        let decor = cx.choose(3);
        if !cx.assume(decor != 1 || t == 0) { return; }
        if !cx.assume(decor != 2 || (p == 1 || p == 2 || p == 4)) { return; }
        let ty = ["INTEGER", "RefSeq", "RefCh", "CHOICE { x BOOLEAN, y NULL }", "ANY"][t];
        let tagged = format!("[{class_src}{n}] {kw}{ty}{}", ["", " (0..5)", " OPTIONAL"][decor]);
        let body = match p {
            0 => format!("T ::= {tagged}"),
            1 => format!("T ::= SEQUENCE {{ f {tagged}, g BOOLEAN }}"),
            2 => format!("T ::= SET {{ f {tagged}, g BOOLEAN }}"),
            3 => format!("T ::= CHOICE {{ f {tagged}, g BOOLEAN }}"),
            4 => format!("T ::= SEQUENCE {{ o SEQUENCE {{ f {tagged}, g BOOLEAN }}, h NULL }}"),
            5 => format!("T ::= SEQUENCE OF {tagged}"),
            _ => format!("T ::= SET OF {tagged}"),
        };
        let src = format!("M DEFINITIONS {header}::= BEGIN RefSeq ::= SEQUENCE {{ x BOOLEAN }} RefCh ::= CHOICE {{ x BOOLEAN, y NULL }} {body} END");
        cx.describe(|| format!("DEFINITIONS {header}::= ... {body}"));
        let out = crate::Compiler::<crate::generator::rasn::Rasn, _>::new().add_asn_literal(&src).compile_to_string();
        let Ok(res) = out else { vob!(cx, "C03.matrix.compiles", false); return; };
        let g = &res.generated;
        // where the tag must show
        let text: Option<String> = match p {
            0 => { let cut = g.find(" T ").or_else(|| g.find("struct T")).or_else(|| g.find("enum T")); struct_or_enum_attrs(g, "T").or_else(|| cut.map(|_| String::new())) }
            1 | 2 | 3 => item_of(g, "T").and_then(|(_, fs)| fs.into_iter().find(|f| f.contains(" f ") || f.contains("f (") || f.contains("pub f "))),
            4 => item_of(g, "TO").and_then(|(_, fs)| fs.into_iter().find(|f| f.contains("pub f "))),
            _ => struct_or_enum_attrs(g, "AnonymousT"),
        };
        let explicit_form = format!("tag (explicit ({class_out} , {n}))");
        let implicit_form = format!("tag ({class_out} , {n})");
        let must_explicit = k == 2 || (k == 0 && (d == 0 || d == 3));
        let choice_like = t >= 2;
        let ok = match &text {
            None => false,
            Some(a) => if must_explicit { a.contains(&explicit_form) } else if choice_like { a.contains(&explicit_form) || a.contains(&implicit_form) } else { a.contains(&implicit_form) && !a.contains("explicit") },
        };
        if d == 3 && k == 0 {
            vob!(cx, "C03.matrix.no_tags_clause_means_explicit_tags", ok);
        } else if p >= 5 {
            vob!(cx, "C03.matrix.collection_element_tag_is_applied_with_class_number_and_mode", ok);
        } else if p == 0 {
            vob!(cx, "C03.matrix.type_assignment_tag_is_applied_with_class_number_and_mode", ok);
        } else {
            vob!(cx, "C03.matrix.component_tag_is_applied_with_class_number_and_mode", ok);
        }
        // the tag is applied once: not repeated on a type hoisted out of the tagged component
        if p < 5 && !(d == 3 && k == 0) {
            vob!(cx, "C03.matrix.tag_is_applied_exactly_once", g.matches(&format!("({class_out} , {n})")).count() == 1);
        }
        // automatic tagging: exactly when the module says AUTOMATIC TAGS and no component of that very type is tagged
        if (1..=4).contains(&p) {
            let holder = if p == 4 { "TO" } else { "T" };
            let attrs = struct_or_enum_attrs(g, holder).unwrap_or_default();
            vob!(cx, "C03.matrix.no_automatic_tags_on_a_type_with_a_tagged_component", !attrs.contains("automatic_tags"));
            if p == 4 {
                let outer = struct_or_enum_attrs(g, "T").unwrap_or_default();
                vob!(cx, "C03.matrix.automatic_tags_iff_module_default_is_automatic", outer.contains("automatic_tags") == (d == 2));
            }
        }
    }
    #[cfg(kani)]
    { let _ = cx; }
}
/// attributes written before `pub struct <name>` / `pub enum <name>` (back to the previous derive)
#[cfg(not(kani))]
fn struct_or_enum_attrs(generated: &str, name: &str) -> Option<String> {
    let pos = [format!("pub struct {name} "), format!("pub enum {name} ")].iter().filter_map(|h| generated.find(h.as_str())).min()?;
    let start = generated[..pos].rfind("# [derive").unwrap_or(0);
    Some(generated[start..pos].to_string())
}

/// C06 — the property's own boundary set through the whole pipeline: (lower, upper) from {MIN, +-2^k, +-2^k+-1 for k in
/// 7,8,15,16,31,32,63,64, 0, +-1, MAX} with / without extension marker, as type assignment, component, SEQUENCE OF element,
/// value assignment and DEFAULT: the Rust type is the narrowest that holds [lower, upper] — Integer when extensible or
/// open-ended — and an emitted literal is declared with that type.
pub fn contract_pipeline_integer_widths<C: Ctx>(cx: &mut C) {
    #[cfg(not(kani))]
    {
        let mut pts: Vec<Option<i128>> = vec![None];
        for k in [7u32, 8, 15, 16, 31, 32, 63, 64] { let p = 1i128 << k; for v in [p - 1, p, p + 1, -p - 1, -p, -p + 1] { pts.push(Some(v)); } }
        for v in [0i128, 1, -1] { pts.push(Some(v)); }
        let lo = pts[cx.choose(pts.len())];
        let hi = pts[cx.choose(pts.len())];
        if !cx.assume(match (lo, hi) { (Some(l), Some(h)) => l <= h, _ => true }) { return; }
        let ext = cx.any_bool();
        let position = cx.choose(5);
        // a value needs a finite bound to be written
        if !cx.assume(position < 3 || lo.is_some() || hi.is_some()) { return; }
        let range = format!("({}..{}{})", lo.map_or("MIN".to_string(), |v| v.to_string()), hi.map_or("MAX".to_string(), |v| v.to_string()), if ext { ", ..." } else { "" });
        let lit = lo.or(hi).unwrap_or(0);
        let body = match position {
            0 => format!("A ::= INTEGER {range}"),
            1 => format!("S ::= SEQUENCE {{ f INTEGER {range} }}"),
            2 => format!("L ::= SEQUENCE OF INTEGER {range}"),
            3 => format!("v INTEGER {range} ::= {lit}"),
            _ => format!("S ::= SEQUENCE {{ f INTEGER {range} DEFAULT {lit} }}"),
        };
        cx.describe(|| body.clone());
        let src = format!("M DEFINITIONS AUTOMATIC TAGS ::= BEGIN {body} END");
        let out = crate::Compiler::<crate::generator::rasn::Rasn, _>::new().add_asn_literal(&src).compile_to_string();
        let Ok(res) = out else { vob!(cx, "C06.widths.compiles", false); return; };
        let g = &res.generated;
        let want = match (lo, hi) {
            (Some(l), Some(h)) if !ext => {
                if l >= 0 { if h <= 255 { "u8" } else if h <= 65535 { "u16" } else if h <= 4294967295 { "u32" } else if h <= 18446744073709551615 { "u64" } else { "Integer" } }
                else if l >= -128 && h <= 127 { "i8" } else if l >= -32768 && h <= 32767 { "i16" } else if l >= -2147483648 && h <= 2147483647 { "i32" } else if l >= -9223372036854775808 && h <= 9223372036854775807 { "i64" } else { "Integer" }
            }
            _ => "Integer",
        };
        let lit_text = if lit < 0 { format!("- {}", lit.unsigned_abs()) } else { lit.to_string() };
        let lit_form = if want == "Integer" { format!("Integer :: from ({lit_text}i128)") } else { lit_text.clone() };
        match position {
            0 => { vob!(cx, "C06.widths.type_assignment_is_the_narrowest_type_that_holds_the_range", g.contains(&format!("pub struct A (pub {want})"))); }
            1 => { vob!(cx, "C06.widths.component_is_the_narrowest_type_that_holds_the_range", g.contains(&format!("pub f : {want} ,"))); }
            2 => { vob!(cx, "C06.widths.collection_element_is_the_narrowest_type_that_holds_the_range", g.contains(&format!("pub struct AnonymousL (pub {want})"))); }
            3 => { vob!(cx, "C06.widths.value_literal_is_declared_with_the_type_of_its_constraint",
                        if want == "Integer" { g.contains(&format!("LazyLock < Integer > = LazyLock :: new (|| {lit_form})")) } else { g.contains(&format!("pub const V : {want} = {lit_form} ;")) }); }
            _ => { vob!(cx, "C06.widths.default_literal_is_declared_with_the_type_of_the_field", g.contains(&format!("pub f : {want} ,")) && g.contains(&format!("fn s_f_default () -> {want} {{ {lit_form} }}"))); }
        }
    }
    #[cfg(kani)]
    { let _ = cx; }
}

/// C14 — the property's own quantifier through the whole pipeline: every enumeration with up to `max_root` root items and up
/// to `max_add` additions, each identifier-only or numbered from {-1,0,1,2,5} (valid per X.680 §20: explicit numbers
/// distinct, additions ascending); the generated discriminants are the numbers X.680 §20.3 / §20.6 assign — computed
/// here by an independent reference — with the identifiers in source order.
pub fn contract_pipeline_enumerated<C: Ctx>(cx: &mut C, max_root: usize, max_add: usize) {
    #[cfg(not(kani))]
    {
        const ALPHABET: [Option<i128>; 6] = [None, Some(-1), Some(0), Some(1), Some(2), Some(5)];
        let n_root = 1 + cx.choose(max_root);
        let marker = cx.any_bool();
        let n_add = if marker { cx.choose(max_add + 1) } else { 0 };
        let root: Vec<Option<i128>> = (0..n_root).map(|_| ALPHABET[cx.choose(6)]).collect();
        let adds: Vec<Option<i128>> = (0..n_add).map(|_| ALPHABET[cx.choose(6)]).collect();
        // reference numbering (X.680 §20.3, §20.6)
        let explicit_root: Vec<i128> = root.iter().flatten().copied().collect();
        let mut distinct = explicit_root.clone(); distinct.sort(); distinct.dedup();
        if !cx.assume(distinct.len() == explicit_root.len()) { return; }
        let mut numbers: Vec<i128> = vec![];
        let mut next = 0i128;
        for r in &root {
            match r { Some(v) => numbers.push(*v), None => { while explicit_root.contains(&next) { next += 1; } numbers.push(next); next += 1; } }
        }
        let root_numbers = numbers.clone();
        let mut last_add: Option<i128> = None;
        let mut valid = true;
        for a in &adds {
            let v = match a {
                Some(v) => { if root_numbers.contains(v) || last_add.map_or(false, |l| *v <= l) { valid = false; } *v }
                None => { let mut c = last_add.map_or(0, |l| l + 1).max(0); while root_numbers.contains(&c) { c += 1; } c }
            };
            numbers.push(v);
            last_add = Some(v);
        }
        if !cx.assume(valid) { return; }
        let item = |name: String, n: &Option<i128>| match n { Some(v) => format!("{name}({v})"), None => name };
        let mut items: Vec<String> = root.iter().enumerate().map(|(i, n)| item(format!("r{i}"), n)).collect();
        if marker { items.push("...".into()); }
        items.extend(adds.iter().enumerate().map(|(i, n)| item(format!("x{i}"), n)));
        let body = format!("E ::= ENUMERATED {{ {} }}", items.join(", "));
        cx.describe(|| body.clone());
        let src = format!("M DEFINITIONS AUTOMATIC TAGS ::= BEGIN {body} END");
        let out = crate::Compiler::<crate::generator::rasn::Rasn, _>::new().add_asn_literal(&src).compile_to_string();
        let Ok(res) = out else { vob!(cx, "C14.pipeline.compiles", false); return; };
        let Some((attrs, variants)) = item_of(&res.generated, "E") else { vob!(cx, "C14.pipeline.compiles", false); return; };
        let got: Vec<(String, String, bool)> = variants.iter().map(|v| { let d = match v.rfind(']') { Some(p) => v[p + 1..].trim(), None => v.trim() }; let mut p = d.split('='); (p.next().unwrap_or("").trim().to_string(), p.next().unwrap_or("").replace(' ', ""), v.contains("extension_addition")) }).collect();
        let names: Vec<String> = (0..n_root).map(|i| format!("r{i}")).chain((0..n_add).map(|i| format!("x{i}"))).collect();
        vob!(cx, "C14.pipeline.identifiers_in_source_order", got.iter().map(|g| g.0.clone()).collect::<Vec<_>>() == names);
        vob!(cx, "C14.pipeline.numbers_are_those_of_x680_clause_20", got.iter().map(|g| g.1.clone()).collect::<Vec<_>>() == numbers.iter().map(|n| n.to_string()).collect::<Vec<_>>());
        let mut sorted = numbers.clone(); sorted.sort(); sorted.dedup();
        vob!(cx, "C14.pipeline.numbers_are_distinct", sorted.len() == numbers.len() && { let mut g: Vec<&String> = got.iter().map(|g| &g.1).collect(); g.sort(); g.dedup(); g.len() == got.len() });
        // (by identity: exactly the items written after the marker carry the mark, wherever they end up)
        vob!(cx, "C05.pipeline_enumerated.additions_exactly_after_the_marker", got.len() == n_root + n_add && got.iter().all(|g| g.2 == g.0.starts_with('x')));
        vob!(cx, "C05.pipeline_enumerated.extensible_iff_marker", attrs.contains("non_exhaustive") == marker);
    }
    #[cfg(kani)]
    { let _ = (cx, max_root, max_add); }
}
pub fn contract_pipeline_enumerated_quick<C: Ctx>(cx: &mut C) { contract_pipeline_enumerated(cx, 3, 2) }
pub fn contract_pipeline_enumerated_full<C: Ctx>(cx: &mut C) { contract_pipeline_enumerated(cx, 5, 3) }

/// C05 — the property's own quantifier through the whole pipeline for SEQUENCE / SET / CHOICE: 0..=2 root components, marker
/// or not, up to 3 additions each a plain component or a [[ ]] group of one or two components with / without version
/// number, top-level or as an anonymous nested type, with / without EXTENSIBILITY IMPLIED.
pub fn contract_pipeline_extensibility<C: Ctx>(cx: &mut C) {
    #[cfg(not(kani))]
    {
        let kind = cx.choose(3);
        let implied = cx.any_bool();
        let nested = cx.any_bool();
        let n_root = if kind == 2 { 1 + cx.choose(2) } else { cx.choose(3) };
        let marker = cx.any_bool();
        let n_add = if marker { cx.choose(4) } else { 0 };
        // 0 plain, 1 group of one, 2 group of two, 3 group of two with version number
        let adds: Vec<usize> = (0..n_add).map(|_| cx.choose(4)).collect();
        if !cx.assume(n_root + n_add > 0 || kind != 2) { return; }
        // the lexer rejects a [[ ]] group inside a SET outright (a loud "unsupported notation" failure, not part of this claim)
        if !cx.assume(!(kind == 1 && adds.iter().any(|a| *a > 0))) { return; }
        // ... and a version number inside a group of a CHOICE
        if !cx.assume(!(kind == 2 && adds.iter().any(|a| *a == 3))) { return; }
        // every component of one module has the same type, taken from types that go through different emission branches
        let comp_ty = ["BOOLEAN", "UTF8String", "IA5String (SIZE(1..4))", "INTEGER (0..5)", "Ref", "SET OF BOOLEAN"][cx.choose(6)];
        let comp = |name: &str| if kind == 2 { format!("{name} {comp_ty}") } else { format!("{name} {comp_ty} OPTIONAL") };
        let mut items: Vec<String> = (0..n_root).map(|i| comp(&format!("r{i}"))).collect();
        if marker { items.push("...".into()); }
        // expected members after the marker: (name, is_group, grouped names)
        let mut expected: Vec<(String, bool, Vec<String>)> = vec![];
        for (i, a) in adds.iter().enumerate() {
            match a {
                0 => { items.push(comp(&format!("x{i}"))); expected.push((format!("x{i}"), false, vec![])); }
                1 => { items.push(format!("[[ {} ]]", comp(&format!("g{i}a")))); expected.push((format!("ext_group_g{i}a"), true, vec![format!("g{i}a")])); }
                k => { items.push(format!("[[ {}{}, {} ]]", if *k == 3 { format!("{}: ", i + 2) } else { String::new() }, comp(&format!("g{i}a")), comp(&format!("g{i}b")))); expected.push((format!("ext_group_g{i}a"), true, vec![format!("g{i}a"), format!("g{i}b")])); }
            }
        }
        // a comma after the last addition (X.680 allows none, the compiler accepts it: it must not change the result)
        let trailing_comma = marker && n_add > 0 && cx.any_bool();
        let ty = format!("{} {{ {}{} }}", ["SEQUENCE", "SET", "CHOICE"][kind], items.join(", "), if trailing_comma { "," } else { "" });
        let body = if nested { format!("T ::= SEQUENCE {{ w {ty} }}") } else { format!("T ::= {ty}") };
        cx.describe(|| format!("{}{body}", if implied { "EXTENSIBILITY IMPLIED: " } else { "" }));
        let src = format!("M DEFINITIONS AUTOMATIC TAGS {}::= BEGIN Ref ::= NULL {body} END", if implied { "EXTENSIBILITY IMPLIED " } else { "" });
        let out = crate::Compiler::<crate::generator::rasn::Rasn, _>::new().add_asn_literal(&src).compile_to_string();
        let Ok(res) = out else { vob!(cx, "C05.pipeline.compiles", false); return; };
        let g = &res.generated;
        let holder = if nested { "TW" } else { "T" };
        let Some((_, fields)) = item_of(g, holder) else { vob!(cx, "C05.pipeline.compiles", false); return; };
        let attrs = struct_or_enum_attrs(g, holder).unwrap_or_default();
        vob!(cx, "C05.pipeline.extensible_iff_marker_or_extensibility_implied", attrs.contains("non_exhaustive") == (marker || implied));
        // member list as the property describes it
        let mut want: Vec<(String, &str)> = (0..n_root).map(|i| (format!("r{i}"), "root")).collect();
        for (name, is_group, grouped) in &expected {
            if *is_group && kind != 2 { want.push((name.clone(), "group")); }
            else if *is_group { for gname in grouped { want.push((gname.clone(), "addition")); } }
            else { want.push((name.clone(), "addition")); }
        }
        let field_name = |f: &String| -> String { if kind == 2 { let d = match f.rfind(']') { Some(p) => f[p + 1..].trim(), None => f.trim() }; d.split('(').next().unwrap_or("").trim().to_string() } else { f.split("pub ").nth(1).and_then(|r| r.split(" :").next()).unwrap_or("").trim().to_string() } };
        let names_ok = fields.len() == want.len() && fields.iter().zip(&want).all(|(f, w)| field_name(f) == w.0);
        vob!(cx, "C05.pipeline.members_in_source_order_one_per_component_or_group", names_ok);
        if !names_ok { return; }
        let marks_ok = fields.iter().zip(&want).all(|(f, w)| match w.1 {
            "root" => !f.contains("extension_addition"),
            "addition" => f.contains("extension_addition") && !f.contains("extension_addition_group"),
            _ => f.contains("extension_addition_group") && f.contains(": Option <"),
        });
        vob!(cx, "C05.pipeline.additions_and_groups_are_marked_exactly_after_the_marker", marks_ok);
        if kind != 2 {
            let mut groups_ok = true;
            for (name, is_group, grouped) in &expected {
                if !*is_group { continue; }
                let f = fields.iter().find(|f| field_name(f) == *name).cloned().unwrap_or_default();
                let ty_name = f.rsplit(':').next().unwrap_or("").replace("Option <", "").replace('>', "").trim().to_string();
                let inner = item_of(g, &ty_name).map(|(_, fs)| fs.iter().map(|x| x.split("pub ").nth(1).and_then(|r| r.split(" :").next()).unwrap_or("").trim().to_string()).collect::<Vec<_>>());
                groups_ok = groups_ok && inner.as_ref() == Some(grouped);
            }
            vob!(cx, "C05.pipeline.each_group_contains_exactly_its_components_in_order", groups_ok);
        }
    }
    #[cfg(kani)]
    { let _ = cx; }
}

/// C04 — subtype expressions as TEXT through the whole pipeline (constraint parser -> linker -> fold -> annotation): up to
/// three operands (single values, ranges, MIN.. / ..MAX) joined by | ^ EXCEPT in either spelling, optional outer marker, on an
/// INTEGER component, an INTEGER type assignment and inside SIZE(..) of an OCTET STRING component; the emitted annotation is
/// the PER-visible effective constraint (X.691 §10.3: unions take the hull, intersections intersect, EXCEPT is ignored, with
/// the X.680 precedence EXCEPT > INTERSECTION > UNION), flagged extensible exactly with the marker.
pub fn contract_pipeline_set_expressions<C: Ctx>(cx: &mut C) {
    #[cfg(not(kani))]
    {
        #[derive(Clone, Copy, PartialEq, Debug)]
        struct R { lo: Option<i128>, hi: Option<i128>, empty: bool }
        let operands: [(&str, R); 8] = [
            ("0", R { lo: Some(0), hi: Some(0), empty: false }), ("5", R { lo: Some(5), hi: Some(5), empty: false }), ("200", R { lo: Some(200), hi: Some(200), empty: false }),
            ("0..5", R { lo: Some(0), hi: Some(5), empty: false }), ("0..200", R { lo: Some(0), hi: Some(200), empty: false }), ("5..200", R { lo: Some(5), hi: Some(200), empty: false }),
            ("MIN..5", R { lo: None, hi: Some(5), empty: false }), ("0..MAX", R { lo: Some(0), hi: None, empty: false }),
        ];
        let position = cx.choose(3); // 0 INTEGER component, 1 INTEGER type assignment, 2 SIZE(..) of an OCTET STRING component
        let n = 1 + cx.choose(3);
        let mut texts: Vec<&str> = vec![];
        let mut rs: Vec<R> = vec![];
        let mut ops: Vec<usize> = vec![];
        for i in 0..n {
            let (t, r) = operands[cx.choose(8)];
            if !cx.assume(position != 2 || r.lo.is_some()) { return; }
            texts.push(t); rs.push(r);
            if i + 1 < n { ops.push(cx.choose(3)); }
        }
        let word = cx.any_bool();
        let marker = cx.any_bool();
        let spell = |o: usize| if word { [" UNION ", " INTERSECTION ", " EXCEPT "][o] } else { [" | ", " ^ ", " EXCEPT "][o] };
        let mut expr = String::from(texts[0]);
        for i in 1..n { expr.push_str(spell(ops[i - 1])); expr.push_str(texts[i]); }
        // reference: EXCEPT first (drops its right operand), then INTERSECTION, then UNION
        let meet = |a: R, b: R| { let lo = match (a.lo, b.lo) { (Some(x), Some(y)) => Some(x.max(y)), (x, None) => x, (None, y) => y }; let hi = match (a.hi, b.hi) { (Some(x), Some(y)) => Some(x.min(y)), (x, None) => x, (None, y) => y }; R { lo, hi, empty: a.empty || b.empty || matches!((lo, hi), (Some(l), Some(h)) if l > h) } };
        let hull = |a: R, b: R| R { lo: match (a.lo, b.lo) { (Some(x), Some(y)) => Some(x.min(y)), _ => None }, hi: match (a.hi, b.hi) { (Some(x), Some(y)) => Some(x.max(y)), _ => None }, empty: false };
        let mut vals = rs.clone();
        let mut os = ops.clone();
        let mut degenerate = false;   // an intersection inside the expression is empty: X.680 leaves such expressions to the user
        for level in [2usize, 1, 0] {
            let mut i = 0;
            while i < os.len() {
                if os[i] == level {
                    let r = match level { 2 => vals[i], 1 => meet(vals[i], vals[i + 1]), _ => hull(vals[i], vals[i + 1]) };
                    if r.empty { degenerate = true; }
                    vals[i] = r; vals.remove(i + 1); os.remove(i);
                } else { i += 1; }
            }
        }
        let reference = vals[0];
        // an empty intersection is rejected by the compiler (warning); not part of this claim
        if !cx.assume(!reference.empty && !degenerate) { return; }
        let range_text = match (reference.lo, reference.hi) { (Some(l), Some(h)) if l == h => format!("{l}"), (Some(l), Some(h)) => format!("{l}..={h}"), (Some(l), None) => format!("{l}.."), (None, Some(h)) => format!("..={h}"), _ => String::new() };
        let kw = if position == 2 { "size" } else { "value" };
        let want = if range_text.is_empty() { String::new() } else if marker { format!("{kw} (\"{range_text}\" , extensible)") } else { format!("{kw} (\"{range_text}\")") };
        let c = format!("({expr}{})", if marker { ", ..." } else { "" });
        let body = match position { 0 => format!("S ::= SEQUENCE {{ f INTEGER {c} }}"), 1 => format!("A ::= INTEGER {c}"), _ => format!("S ::= SEQUENCE {{ f OCTET STRING (SIZE {c}) }}") };
        cx.describe(|| body.clone());
        let src = format!("M DEFINITIONS AUTOMATIC TAGS ::= BEGIN {body} END");
        let out = crate::Compiler::<crate::generator::rasn::Rasn, _>::new().add_asn_literal(&src).compile_to_string();
        let Ok(res) = out else { vob!(cx, "C04.pipeline.compiles", false); return; };
        // intermediate empty intersections (e.g. `0 ^ 5 | 200`) are reported by the compiler as a warning: skip those
        if !cx.assume(res.warnings.is_empty()) { return; }
        let g = &res.generated;
        let scope: String = match position { 1 => struct_or_enum_attrs(g, "A").unwrap_or_default(), _ => item_of(g, "S").and_then(|(_, fs)| fs.into_iter().next()).unwrap_or_default() };
        let ok = if want.is_empty() { !scope.contains(&format!("{kw} (")) }
                 else if position == 2 && reference.lo == Some(0) && reference.hi.is_none() && !marker { scope.contains(&want) || !scope.contains("size (") }
                 else { scope.contains(&want) };
        vob!(cx, "C04.pipeline.annotation_is_the_per_visible_effective_constraint", ok);
    }
    #[cfg(kani)]
    { let _ = cx; }
}

/// C02 — type shapes as TEXT through the whole pipeline: SEQUENCE / SET / CHOICE with 1..=`max_n` components, each of one of
/// nine component types (builtin, reference, collections, inline SEQUENCE / CHOICE / ENUMERATED) and, outside CHOICE,
/// required / OPTIONAL / DEFAULT; top-level or as an anonymous nested type.  One field or variant per component, in source
/// order, with the corresponding Rust type; Option for OPTIONAL, a default function for DEFAULT, the `set` mark, and every
/// inline type hoisted under the derived name with its own components.
pub fn contract_pipeline_type_shapes<C: Ctx>(cx: &mut C, max_n: usize) {
    #[cfg(not(kani))]
    {
        let kind = cx.choose(3);
        let nested = cx.any_bool();
        let n = 1 + cx.choose(max_n);
        // (source, Rust type with `{}` for the hoisted name, hoisted item's members)
        let types: [(&str, &str, &[&str]); 19] = [
            ("BOOLEAN", "bool", &[]), ("INTEGER", "Integer", &[]), ("OCTET STRING", "OctetString", &[]), ("Ref", "Ref", &[]),
            ("SEQUENCE OF BOOLEAN", "SequenceOf < bool >", &[]), ("SET OF Ref", "SetOf < Ref >", &[]),
            ("NULL", "()", &[]), ("UTF8String", "Utf8String", &[]), ("BIT STRING", "BitString", &[]), ("OBJECT IDENTIFIER", "ObjectIdentifier", &[]),
            ("INTEGER (0..255)", "u8", &[]), ("INTEGER (-10..10, ...)", "Integer", &[]), ("INTEGER (-10..10)", "i8", &[]), ("IA5String (SIZE(1..4))", "Ia5String", &[]), ("SEQUENCE OF Ref", "SequenceOf < Ref >", &[]), ("SET OF BOOLEAN", "SetOf < bool >", &[]),
            ("SEQUENCE { a BOOLEAN, b NULL OPTIONAL }", "{}", &["pub a : bool", "pub b : Option < () >"]),
            ("CHOICE { a BOOLEAN, b NULL }", "{}", &["a (bool)", "b (())"]),
            ("ENUMERATED { x, y }", "{}", &["x = 0", "y = 1"]),
        ];
        let mut comps: Vec<String> = vec![];
        let mut want: Vec<(String, String, usize, usize)> = vec![]; // field name, rust type, type index, optionality
        let holder = if nested { "TW" } else { "T" };
        for i in 0..n {
            let ti = cx.choose(19);
            let opt = if kind == 2 { 0 } else { cx.choose(3) };
            if !cx.assume(opt != 2 || ti < 2) { return; }
            let (src, rust, _) = types[ti];
            let name = format!("f{i}");
            comps.push(format!("{name} {src}{}", match opt { 1 => " OPTIONAL", 2 => if ti == 0 { " DEFAULT TRUE" } else { " DEFAULT 5" }, _ => "" }));
            let base = rust.replace("{}", &format!("{holder}F{i}"));
            want.push((name, if opt == 1 { format!("Option < {base} >") } else { base }, ti, opt));
        }
        let ty = format!("{} {{ {} }}", ["SEQUENCE", "SET", "CHOICE"][kind], comps.join(", "));
        let body = if nested { format!("T ::= SEQUENCE {{ w {ty} }}") } else { format!("T ::= {ty}") };
        cx.describe(|| body.clone());
        let src = format!("M DEFINITIONS AUTOMATIC TAGS ::= BEGIN Ref ::= NULL {body} END");
        let out = crate::Compiler::<crate::generator::rasn::Rasn, _>::new().add_asn_literal(&src).compile_to_string();
        let Ok(res) = out else { vob!(cx, "C02.shapes.compiles", false); return; };
        if !res.warnings.is_empty() { vob!(cx, "C02.shapes.compiles", false); return; }
        let g = &res.generated;
        let Some((_, fields)) = item_of(g, holder) else { vob!(cx, "C02.shapes.compiles", false); return; };
        let attrs = struct_or_enum_attrs(g, holder).unwrap_or_default();
        vob!(cx, "C02.shapes.one_member_per_component", fields.len() == n);
        if fields.len() != n { return; }
        let mut order_and_types = true; let mut defaults = true; let mut hoisted = true;
        for (f, (name, rust, ti, opt)) in fields.iter().zip(&want) {
            let decl_ok = if kind == 2 { f.trim_end().ends_with(&format!("{name} ({rust})")) } else { f.trim_end().ends_with(&format!("pub {name} : {rust}")) };
            order_and_types = order_and_types && decl_ok;
            defaults = defaults && (f.contains("default =") == (*opt == 2)) && (*opt != 2 || g.contains(&format!("fn {}_{name}_default () -> {rust}", if nested { "tw" } else { "t" })));
            let members = types[*ti].2;
            if !members.is_empty() {
                let inner = item_of(g, &format!("{holder}F{}", &name[1..]));
                hoisted = hoisted && matches!(&inner, Some((_, fs)) if fs.len() == members.len() && fs.iter().zip(members.iter()).all(|(x, m)| x.trim_end().ends_with(m)));
            }
        }
        vob!(cx, "C02.shapes.members_in_source_order_with_the_corresponding_rust_type", order_and_types);
        vob!(cx, "C02.shapes.default_function_exactly_for_default_components", defaults);
        vob!(cx, "C02.shapes.inline_types_are_hoisted_with_their_own_components", hoisted);
        vob!(cx, "C02.shapes.set_is_marked_as_set", (attrs.contains("rasn (set") || attrs.contains(", set")) == (kind == 1));
    }
    #[cfg(kani)]
    { let _ = (cx, max_n); }
}
pub fn contract_pipeline_type_shapes_quick<C: Ctx>(cx: &mut C) { contract_pipeline_type_shapes(cx, 2) }
pub fn contract_pipeline_type_shapes_full<C: Ctx>(cx: &mut C) { contract_pipeline_type_shapes(cx, 3) }

/// C04 — value references in bounds, whole pipeline: a bound written as a value reference — local, imported, or qualified
/// with its module (`Limits.maxVal`) — is replaced by the referenced integer, as lower bound, upper bound or both, on an
/// INTEGER component, an INTEGER type assignment, SIZE(..) of an OCTET STRING component, and through a type reference.
pub fn contract_pipeline_bound_references<C: Ctx>(cx: &mut C) {
    #[cfg(not(kani))]
    {
        let form = cx.choose(3);      // 0 defined in the same module, 1 imported, 2 imported and module-qualified
        let which = cx.choose(3);     // 0 upper bound, 1 lower bound, 2 both
        let position = cx.choose(4);  // 0 INTEGER component, 1 INTEGER type assignment, 2 SIZE of an OCTET STRING component, 3 constrained type reference component
        let (lo_ref, hi_ref) = match form { 2 => ("Limits.minVal", "Limits.maxVal"), _ => ("minVal", "maxVal") };
        let lo = if which >= 1 { lo_ref } else { "1" };
        let hi = if which != 1 { hi_ref } else { "20" };
        let (lo_v, hi_v) = (if which >= 1 { 3 } else { 1 }, if which != 1 { 12 } else { 20 });
        let c = format!("({lo}..{hi})");
        let body = match position { 0 => format!("S ::= SEQUENCE {{ f INTEGER {c} }}"), 1 => format!("A ::= INTEGER {c}"), 2 => format!("S ::= SEQUENCE {{ f OCTET STRING (SIZE {c}) }}"), _ => format!("Plain ::= INTEGER S ::= SEQUENCE {{ f Plain {c} }}") };
        let values = "minVal INTEGER ::= 3 maxVal INTEGER ::= 12";
        let src = if form == 0 { format!("M DEFINITIONS AUTOMATIC TAGS ::= BEGIN {values} {body} END") }
                  else { format!("Limits DEFINITIONS AUTOMATIC TAGS ::= BEGIN EXPORTS ALL; {values} END\nM DEFINITIONS AUTOMATIC TAGS ::= BEGIN IMPORTS minVal, maxVal FROM Limits; {body} END") };
        cx.describe(|| format!("{} {body}", ["values defined in the same module;", "values imported from module Limits;", "values imported from module Limits and written module-qualified;"][form]));
        let out = crate::Compiler::<crate::generator::rasn::Rasn, _>::new().add_asn_literal(&src).compile_to_string();
        let Ok(res) = out else { vob!(cx, "C04.pipeline_references.compiles", false); return; };
        let g = &res.generated;
        let kw = if position == 2 { "size" } else { "value" };
        let want = format!("{kw} (\"{lo_v}..={hi_v}\")");
        let scope: String = match position { 1 => struct_or_enum_attrs(g, "A").unwrap_or_default(), _ => item_of(g, "S").and_then(|(_, fs)| fs.into_iter().next()).unwrap_or_default() };
        vob!(cx, "C04.pipeline_references.bound_is_the_referenced_value", res.warnings.is_empty() && scope.contains(&want));
    }
    #[cfg(kani)]
    { let _ = cx; }
}

/// C02 — recursive components are boxed, whole pipeline: the cycle may close directly, through one or two type-reference
/// assignments (`Link ::= Node`), or through an anonymous nested type below a CHOICE alternative.
pub fn contract_pipeline_recursion<C: Ctx>(cx: &mut C) {
    #[cfg(not(kani))]
    {
        let shape = cx.choose(5);
        let optional = cx.any_bool();
        let opt = if optional { " OPTIONAL" } else { "" };
        // (source, item, member, expected type of the member)
        let (src, item, member, inner): (String, &str, &str, &str) = match shape {
            0 => (format!("Node ::= SEQUENCE {{ val INTEGER, next Node{opt} }}"), "Node", "next", "Box < Node >"),
            1 => (format!("Node ::= SEQUENCE {{ val INTEGER, next Link{opt} }} Link ::= Node"), "Node", "next", "Box < Link >"),
            2 => (format!("Node ::= SEQUENCE {{ val INTEGER, next Link{opt} }} Link ::= Mid Mid ::= Node"), "Node", "next", "Box < Link >"),
            3 => (format!("Node ::= SET {{ val INTEGER, next Link{opt} }} Link ::= Node"), "Node", "next", "Box < Link >"),
            _ => ("Tree ::= CHOICE { leaf NULL, branch SET { left Sub, right Sub } } Sub ::= Tree".to_string(), "Tree", "branch", "Box < TreeBranch >"),
        };
        if !cx.assume(shape != 4 || !optional) { return; }
        // a required self-reference has no finite value, but the bindings must still be well-formed Rust
        cx.describe(|| src.clone());
        let text = format!("M DEFINITIONS AUTOMATIC TAGS ::= BEGIN {src} END");
        let out = crate::Compiler::<crate::generator::rasn::Rasn, _>::new().add_asn_literal(&text).compile_to_string();
        let Ok(res) = out else { vob!(cx, "C02.pipeline_recursion.compiles", false); return; };
        let field = item_of(&res.generated, item).and_then(|(_, fs)| fs.into_iter().find(|f| f.contains(&format!("pub {member} :")) || f.contains(&format!("{member} ("))));
        let want = if shape == 4 { format!("{member} ({inner})") } else if optional { format!("pub {member} : Option < {inner} >") } else { format!("pub {member} : {inner}") };
        vob!(cx, "C02.pipeline_recursion.recursive_component_is_boxed", matches!(&field, Some(f) if f.trim_end().ends_with(&want)));
    }
    #[cfg(kani)]
    { let _ = cx; }
}

/// C02 / C06 — DEFAULT of an INTEGER component, whole pipeline: the default function returns the type of the field, and its
/// body (a literal, or the constant of a referenced value) has that type.
pub fn contract_pipeline_integer_defaults<C: Ctx>(cx: &mut C) {
    #[cfg(not(kani))]
    {
        // (declarations before S, component type, default written, field type expected, body expected)
        let cases: [(&str, &str, &str, &str, &str); 11] = [
            ("", "INTEGER (0..255)", "5", "u8", "5"),
            ("", "INTEGER (-5..5)", "-5", "i8", "- 5"),
            ("", "INTEGER", "5", "Integer", "Integer :: from (5i128)"),
            ("", "INTEGER (0..255, ...)", "7", "Integer", "Integer :: from (7i128)"),
            ("Small ::= INTEGER (0..255) max-val Small ::= 200", "Small", "max-val", "Small", "MAX_VAL"),
            // a set expression: the field is typed from the folded range
            ("", "INTEGER (0..10 | 20..300)", "5", "u16", "5"),
            // a value reference whose own type differs from the component's type
            ("max-val INTEGER ::= 300", "INTEGER (0..65535)", "max-val", "u16", "300"),
            ("Small ::= INTEGER (0..255) max-val Small ::= 200", "INTEGER (0..255)", "max-val", "u8", "200"),
            // a named number of an unconstrained root type, used through constrained references
            ("DU ::= INTEGER { uno(1), due(2) }", "DU (0..10)", "due", "DU", "DU (Integer :: from (2i128))"),
            ("DU ::= INTEGER { uno(1), due(2) } DU2 ::= DU (0..10)", "DU2", "uno", "DU2", "DU2 (DU (Integer :: from (1i128)))"),
            ("DS ::= INTEGER { uno(1), due(2) } (0..255)", "DS", "due", "DS", "DS (2)"),
        ];
        let (pre, ty, dflt, want_ty, want_body) = cases[cx.choose(11)];
        let src = format!("M DEFINITIONS AUTOMATIC TAGS ::= BEGIN {pre} S ::= SEQUENCE {{ f {ty} DEFAULT {dflt} }} END");
        cx.describe(|| format!("{pre} S ::= SEQUENCE {{ f {ty} DEFAULT {dflt} }}"));
        let out = crate::Compiler::<crate::generator::rasn::Rasn, _>::new().add_asn_literal(&src).compile_to_string();
        let Ok(res) = out else { vob!(cx, "C06.pipeline_defaults.compiles", false); return; };
        let g = &res.generated;
        let field_ty = item_of(g, "S").and_then(|(_, fs)| fs.first().map(|f| f.rsplit("pub f :").next().unwrap_or("").trim().to_string())).unwrap_or_default();
        let (ret_ty, body) = g.split("fn s_f_default () -> ").nth(1).map(|r| { let mut p = r.splitn(2, '{'); (p.next().unwrap_or("").trim().to_string(), p.next().unwrap_or("").split('}').next().unwrap_or("").trim().to_string()) }).unwrap_or_default();
        vob!(cx, "C06.pipeline_defaults.field_type_is_chosen_from_the_constraint", field_ty == want_ty);
        vob!(cx, "C02.pipeline_defaults.default_function_returns_the_field_type", !ret_ty.is_empty() && ret_ty == field_ty);
        // the body has the declared type: a literal of that type, or a constant declared with that very type
        if dflt == "uno" || dflt == "due" {
            // a named number: the literal is wrapped in the newtypes of the chain and has the width of the root type
            vob!(cx, "C06.pipeline_defaults.named_number_default_has_the_width_of_its_root_type", body == want_body);
        } else if body == "MAX_VAL" {
            vob!(cx, "C06.pipeline_defaults.referenced_constant_is_declared_with_the_type_the_function_returns", g.contains(&format!("pub const MAX_VAL : {ret_ty} =")));
        } else {
            // (a referenced value is inlined as its number)
            let n: i128 = dflt.parse().unwrap_or_else(|_| want_body.parse().unwrap_or(0));
            let lit = if n < 0 { format!("- {}", -n) } else { n.to_string() };
            vob!(cx, "C06.pipeline_defaults.default_literal_has_the_type_the_function_returns", if ret_ty == "Integer" { body == format!("Integer :: from ({lit}i128)") } else { body == lit });
        }
    }
    #[cfg(kani)]
    { let _ = cx; }
}

/// C06 — rendering of typed integer literals (`Rasn::value_to_tokens`, LinkedIntValue arm): the emitted literal is the
/// value, digit for digit, for every width.
pub fn contract_literal_rendering<C: Ctx>(cx: &mut C) {
    #[cfg(not(kani))]
    {
        let cases: [(IntegerType, i128); 14] = [
            (IntegerType::Uint8, 0), (IntegerType::Uint8, 255), (IntegerType::Int8, -128), (IntegerType::Uint16, 65535), (IntegerType::Int16, -32768),
            (IntegerType::Uint32, 4294967295), (IntegerType::Int32, -2147483648), (IntegerType::Uint64, 9223372036854775807), (IntegerType::Uint64, 9223372036854775808),
            (IntegerType::Uint64, 18446744073709551615), (IntegerType::Int64, -9223372036854775808), (IntegerType::Int64, 9223372036854775807),
            (IntegerType::Unbounded, 170141183460469231731687303715884105727), (IntegerType::Unbounded, -170141183460469231731687303715884105728),
        ];
        let (t, v) = cases[cx.choose(14)];
        cx.describe(|| format!("literal {v} typed {t:?}"));
        let backend = crate::generator::rasn::Rasn::default();
        match backend.value_to_tokens(&ASN1Value::LinkedIntValue { integer_type: t, value: v }, None) {
            Ok(ts) => {
                let text = ts.to_string().replace(' ', "");
                // fixed width: the bare literal; arbitrary precision: Integer::from(<v>i128)
                let want_fixed = v.to_string();
                vob!(cx, "C06.literal_rendering.digits_are_the_value", if t == IntegerType::Unbounded { text.contains(&format!("{v}i128")) || text.contains(&format!("({v})")) } else { text == want_fixed || text == format!("-{}", want_fixed.trim_start_matches('-')) && v < 0 });
                vob!(cx, "C07.literal_rendering.typed_integer_literal_denotes_the_source_value", if t == IntegerType::Unbounded { text.contains(&format!("{v}i128")) || text.contains(&format!("({v})")) } else { text == want_fixed || text == format!("-{}", want_fixed.trim_start_matches('-')) && v < 0 });
            }
            Err(_) => { vob!(cx, "C06.literal_rendering.renders", false); vob!(cx, "C07.literal_rendering.renders", false); }
        }
    }
    #[cfg(kani)]
    { let _ = cx; }
}

/// C07 — SEQUENCE OF / SET OF values keep every element in order (`ASN1Value::link_with_type` -> link_array_like),
/// also when one element cannot be resolved.
pub fn contract_array_value_keeps_all_elements<C: Ctx>(cx: &mut C) {
    #[cfg(not(kani))]
    {
        use crate::intermediate::types::*;
        use std::collections::BTreeMap;
        let n = cx.choose(5);
        let mut kinds = [0usize; 4];
        let mut elems: Vec<(Option<String>, Box<ASN1Value>)> = vec![];
        for i in 0..n {
            kinds[i] = cx.choose(3); // TRUE, FALSE, module-qualified reference that the linker cannot resolve here
            elems.push((None, Box::new(match kinds[i] { 0 => ASN1Value::Boolean(true), 1 => ASN1Value::Boolean(false), _ => ASN1Value::ElsewhereDeclaredValue { module: Some("Other".into()), parent: None, identifier: "yes".into() } })));
        }
        let set = cx.any_bool();
        let of = SequenceOrSetOf { constraints: vec![], element_type: Box::new(ASN1Type::Boolean(Boolean { constraints: vec![] })), element_tag: None, is_recursive: false };
        let ty = if set { ASN1Type::SetOf(of) } else { ASN1Type::SequenceOf(of) };
        cx.describe(|| format!("{} OF BOOLEAN value {{ {} }}", if set { "SET" } else { "SEQUENCE" }, (0..n).map(|i| ["TRUE", "FALSE", "Other.yes"][kinds[i]]).collect::<Vec<_>>().join(", ")));
        let mut v = ASN1Value::SequenceOrSet(elems);
        let tlds = BTreeMap::new();
        let _ = v.link_with_type(&tlds, &ty, None);
        match &v {
            ASN1Value::LinkedArrayLikeValue(items) => {
                let ok = items.len() == n && items.iter().enumerate().all(|(i, it)| match (kinds[i], &**it) { (0, ASN1Value::Boolean(true)) | (1, ASN1Value::Boolean(false)) => true, (2, other) => !matches!(other, ASN1Value::Boolean(_)), _ => false });
                vob!(cx, "C07.array_value.every_element_kept_in_order", ok);
            }
            _ => { vob!(cx, "C07.array_value.becomes_a_linked_array_value", n == 0 && matches!(v, ASN1Value::SequenceOrSet(_)) || false); }
        }
    }
    #[cfg(kani)]
    { let _ = cx; }
}

/// C07 — DEFAULT values are linked with their governing type wherever the component sits:
/// `ToplevelDefinition::collect_supertypes` -> `ASN1Type::collect_supertypes` (SEQUENCE / SET member, nested anonymous
/// SEQUENCE, SEQUENCE inside a CHOICE alternative).
pub fn contract_defaults_linked_at_every_position<C: Ctx>(cx: &mut C) {
    #[cfg(not(kani))]
    {
        use crate::intermediate::types::*;
        use std::collections::BTreeMap;
        let position = cx.choose(4); // 0 top-level SEQUENCE, 1 top-level SET, 2 anonymous SEQUENCE nested in a SEQUENCE, 3 anonymous SEQUENCE as CHOICE alternative
        let member = || SequenceOrSetMember { name: "count".into(), tag: None, ty: ASN1Type::Integer(Integer { constraints: vec![], distinguished_values: Some(vec![DistinguishedValue { name: "limit".into(), value: 5 }]) }),
            optionality: Optionality::Default(if position % 2 == 0 { ASN1Value::Integer(7) } else { ASN1Value::ElsewhereDeclaredValue { module: None, parent: None, identifier: "limit".into() } }), is_recursive: false, constraints: vec![] };
        let seq = |set: bool| { let s = SequenceOrSet { components_of: vec![], extensible: None, constraints: vec![], members: vec![member()] }; if set { ASN1Type::Set(s) } else { ASN1Type::Sequence(s) } };
        let ty = match position {
            0 => seq(false), 1 => seq(true),
            2 => ASN1Type::Sequence(SequenceOrSet { components_of: vec![], extensible: None, constraints: vec![], members: vec![SequenceOrSetMember { name: "inner".into(), tag: None, ty: seq(false), optionality: Optionality::Required, is_recursive: false, constraints: vec![] }] }),
            _ => ASN1Type::Choice(Choice { extensible: None, constraints: vec![], options: vec![ChoiceOption { name: "ping".into(), tag: None, ty: seq(false), constraints: vec![], is_recursive: false }] }),
        };
        cx.describe(|| format!("DEFAULT {} on an INTEGER {{ limit(5) }} component of {}", if position % 2 == 0 { "7" } else { "limit" }, ["a SEQUENCE", "a SET", "an anonymous SEQUENCE nested in a SEQUENCE", "an anonymous SEQUENCE that is a CHOICE alternative"][position]));
        let mut tld = ToplevelDefinition::Type(ToplevelTypeDefinition { comments: String::new(), tag: None, name: "T".into(), ty, parameterization: None, module_header: None });
        let mut tlds: BTreeMap<String, ToplevelDefinition> = BTreeMap::new();
        // a same-named value elsewhere must not win over the named number
        tlds.insert("limit".into(), ToplevelDefinition::Value(ToplevelValueDefinition::from(("limit", ASN1Value::Integer(55), ASN1Type::Integer(Integer { constraints: vec![], distinguished_values: None })))));
        let r = tld.collect_supertypes(&tlds);
        vob!(cx, "C07.defaults.linking_succeeds", r.is_ok());
        fn find_default(ty: &ASN1Type) -> Option<&ASN1Value> {
            match ty {
                ASN1Type::Sequence(s) | ASN1Type::Set(s) => s.members.iter().find_map(|m| m.optionality.default().or_else(|| find_default(&m.ty))),
                ASN1Type::Choice(c) => c.options.iter().find_map(|o| find_default(&o.ty)),
                _ => None,
            }
        }
        fn int_of(v: &ASN1Value) -> Option<i128> { match v { ASN1Value::LinkedIntValue { value, .. } => Some(*value), ASN1Value::LinkedNestedValue { value, .. } => int_of(value), _ => None } }
        if let ToplevelDefinition::Type(t) = &tld {
            let d = find_default(&t.ty);
            vob!(cx, "C07.defaults.default_is_linked_to_a_typed_value_of_its_governing_type", d.and_then(int_of) == Some(if position % 2 == 0 { 7 } else { 5 }));
        }
    }
    #[cfg(kani)]
    { let _ = cx; }
}

/// C05 — "extensible exactly when it contains an extension marker or its module header says EXTENSIBILITY IMPLIED":
/// an anonymous ENUMERATED nested in a component, alternative or SEQUENCE OF element follows its module's header too
/// (Rasn::generate_enumerated, reached through the synthetic definitions of nested types).
pub fn contract_generate_nested_enumerated<C: Ctx>(cx: &mut C) {
    #[cfg(not(kani))]
    {
        use crate::intermediate::types::*;
        use crate::generator::Backend;
        use std::{cell::RefCell, rc::Rc};
        let implied = cx.any_bool();
        let marker = cx.any_bool();
        let container = cx.choose(4); // 0 top-level ENUMERATED, 1 SEQUENCE component, 2 CHOICE alternative, 3 element of a SEQUENCE OF
        let en = ASN1Type::Enumerated(Enumerated { members: vec![Enumeral { name: "circle".into(), description: None, index: 0 }, Enumeral { name: "square".into(), description: None, index: 1 }], extensible: if marker { Some(2) } else { None }, constraints: vec![] });
        let ty = match container {
            0 => en,
            1 => ASN1Type::Sequence(SequenceOrSet { components_of: vec![], extensible: None, constraints: vec![], members: vec![SequenceOrSetMember { name: "kind".into(), tag: None, ty: en, optionality: Optionality::Required, is_recursive: false, constraints: vec![] }] }),
            2 => ASN1Type::Choice(Choice { extensible: None, constraints: vec![], options: vec![ChoiceOption { name: "kind".into(), tag: None, ty: en, constraints: vec![], is_recursive: false }] }),
            _ => ASN1Type::SequenceOf(SequenceOrSetOf { constraints: vec![], element_type: Box::new(en), element_tag: None, is_recursive: false }),
        };
        cx.describe(|| format!("EXTENSIBILITY IMPLIED={implied}; ENUMERATED {{ circle, square{} }} as {}", if marker { ", ..." } else { "" }, ["type assignment", "SEQUENCE component", "CHOICE alternative", "SEQUENCE OF element"][container]));
        let h = Rc::new(RefCell::new(ModuleHeader { name: "M".into(), module_identifier: None, encoding_reference_default: None, tagging_environment: TaggingEnvironment::Automatic,
            extensibility_environment: if implied { ExtensibilityEnvironment::Implied } else { ExtensibilityEnvironment::Explicit }, imports: vec![], exports: None }));
        let tld = ToplevelDefinition::Type(ToplevelTypeDefinition { comments: String::new(), tag: None, name: "T".into(), ty, parameterization: None, module_header: Some(h) });
        let mut backend = crate::generator::rasn::Rasn::default();
        let generated = match backend.generate_module(vec![tld]) { Ok(m) if m.warnings.is_empty() => m.generated.unwrap_or_default(), _ => { vob!(cx, "C05.generate.nested_enumerated_is_generated", false); return; } };
        // the enum item that holds `circle`
        let pos = generated.find("circle = 0");
        let Some(pos) = pos else { vob!(cx, "C05.generate.nested_enumerated_is_generated", false); return; };
        let start = generated[..pos].rfind("# [derive").unwrap_or(0);
        let attrs = &generated[start..pos];
        vob!(cx, "C05.generate.enumerated_at_any_position_extensible_iff_marker_or_implied", attrs.contains("non_exhaustive") == (marker || implied));
    }
    #[cfg(kani)]
    { let _ = cx; }
}

// ================================================================================================
// Mechanisms named in the properties' anchors that no earlier unit touched (added proactively, not from a seed)
// ================================================================================================

/// C03 — the tag parser (lexer/common.rs `asn_tag`): class keyword, number, optional IMPLICIT / EXPLICIT (absent = inherit).
pub fn contract_tag_parser<C: Ctx>(cx: &mut C) {
    #[cfg(not(kani))]
    {
        let class = cx.choose(4);
        let kw = cx.choose(3);
        let id = [0u64, 1, 30, 31, 127, 16383, 4294967295, u64::MAX][cx.choose(8)];
        let spaced = cx.any_bool();
        let (cname, want_class) = [("", TagClass::ContextSpecific), ("APPLICATION", TagClass::Application), ("PRIVATE", TagClass::Private), ("UNIVERSAL", TagClass::Universal)][class];
        let src = format!("[{}{}{}{}]{}{} BOOLEAN", if spaced { " " } else { "" }, cname, if cname.is_empty() { "" } else { " " }, id, if spaced { "  " } else { " " }, ["", "IMPLICIT", "EXPLICIT"][kw]);
        cx.describe(|| src.clone());
        match crate::lexer::verif_asn_tag(src.as_str().into()) {
            Ok((_, t)) => {
                vob!(cx, "C03.tag_parser.class_as_written", t.tag_class == want_class);
                vob!(cx, "C03.tag_parser.number_as_written", t.id == id);
                vob!(cx, "C03.tag_parser.keyword_as_written_absent_means_inherit", t.environment == [TaggingEnvironment::Automatic, TaggingEnvironment::Implicit, TaggingEnvironment::Explicit][kw]);
            }
            Err(_) => { vob!(cx, "C03.tag_parser.parses", false); }
        }
    }
    #[cfg(kani)]
    { let _ = cx; }
}

/// C02 / C05 — the CHOICE and SET body parsers (lexer/choice.rs `choice`, lexer/set.rs `set`): alternatives /
/// components in source order with their tags and OPTIONAL marks, marker index = number of root items.
pub fn contract_choice_and_set_parser<C: Ctx>(cx: &mut C) {
    #[cfg(not(kani))]
    {
        use crate::intermediate::types::*;
        let is_set = cx.any_bool();
        let n_root = if is_set { cx.choose(3) } else { 1 + cx.choose(2) };
        let marker = cx.any_bool();
        let n_add = if marker { cx.choose(3) } else { 0 };
        let mut src = String::from(if is_set { "SET { " } else { "CHOICE { " });
        let mut want: Vec<(String, Option<u64>, bool)> = vec![];
        let mut first = true;
        for i in 0..(n_root + n_add) {
            if i == n_root && marker { if !first { src.push_str(", "); } src.push_str("..."); first = false; }
            if !first { src.push_str(", "); }
            first = false;
            let tagged = cx.any_bool();
            let optional = is_set && cx.any_bool();
            let name = format!("{}{}", if i < n_root { "r" } else { "x" }, i);
            // tag numbers descend in source order: any reordering "by tag" shows
            src.push_str(&format!("{name} {}BOOLEAN{}", if tagged { format!("[{}] ", 20 - i) } else { String::new() }, if optional { " OPTIONAL" } else { "" }));
            want.push((name, if tagged { Some(20 - i as u64) } else { None }, optional));
        }
        if marker && n_add == 0 { if !first { src.push_str(", "); } src.push_str("..."); }
        src.push_str(" }");
        cx.describe(|| src.clone());
        let parsed = if is_set { crate::lexer::verif_set(src.as_str().into()) } else { crate::lexer::verif_choice(src.as_str().into()) };
        let got: Option<(Vec<(String, Option<u64>, bool)>, Option<usize>)> = match parsed {
            Ok((_, ASN1Type::Set(s))) => Some((s.members.iter().map(|m| (m.name.clone(), m.tag.as_ref().map(|t| t.id), matches!(m.optionality, Optionality::Optional))).collect(), s.extensible)),
            Ok((_, ASN1Type::Choice(c))) => Some((c.options.iter().map(|o| (o.name.clone(), o.tag.as_ref().map(|t| t.id), false)).collect(), c.extensible)),
            _ => None,
        };
        match got {
            Some((items, ext)) => {
                vob!(cx, "C02.choice_set_parser.items_in_source_order_with_tag_and_optional", items == want);
                vob!(cx, "C05.choice_set_parser.marker_iff_extensible_and_index_is_root_count", ext == if marker { Some(n_root) } else { None });
                // the items at and after the first-addition index are exactly the ones written after the marker
                let after: Vec<&String> = items.iter().skip(ext.unwrap_or(usize::MAX)).map(|i| &i.0).collect();
                vob!(cx, "C05.choice_set_parser.additions_are_exactly_the_items_written_after_the_marker", after.iter().all(|n| n.starts_with('x')) && after.len() == n_add);
            }
            None => { vob!(cx, "C02.choice_set_parser.parses", false); }
        }
    }
    #[cfg(kani)]
    { let _ = cx; }
}

/// C04 — fixed SIZE(n) on BIT STRING / OCTET STRING: `BitString::fixed_size` / `OctetString::fixed_size`
/// (generator/rasn/utils.rs): fixed exactly when the size constraint is a single, non-extensible value.
pub fn contract_fixed_size<C: Ctx>(cx: &mut C) {
    #[cfg(not(kani))]
    {
        use crate::intermediate::constraints::*;
        use crate::intermediate::types::*;
        let bits = cx.any_bool();
        let lo = [0i128, 1, 8, 64][cx.choose(4)];
        let hi_k = cx.choose(3); // 0 = same (single value written as range), 1 = larger, 2 = MAX
        let single = cx.any_bool();
        let ext = cx.any_bool();
        let elem = if single { SubtypeElements::SingleValue { value: ASN1Value::Integer(lo), extensible: ext } }
                   else { SubtypeElements::ValueRange { min: Some(ASN1Value::Integer(lo)), max: match hi_k { 0 => Some(ASN1Value::Integer(lo)), 1 => Some(ASN1Value::Integer(lo + 3)), _ => None }, extensible: ext } };
        let c = Constraint::Subtype(ElementSetSpecs { set: ElementOrSetOperation::Element(SubtypeElements::SizeConstraint(Box::new(ElementOrSetOperation::Element(elem)))), extensible: false });
        cx.describe(|| format!("{} (SIZE({}{}))", if bits { "BIT STRING" } else { "OCTET STRING" }, if single { lo.to_string() } else { format!("{lo}..{}", match hi_k { 0 => lo.to_string(), 1 => (lo + 3).to_string(), _ => "MAX".into() }) }, if ext { ", ..." } else { "" }));
        let got = if bits { BitString { constraints: vec![c], distinguished_values: None }.fixed_size() } else { OctetString { constraints: vec![c] }.fixed_size() };
        let want = if !ext && (single || hi_k == 0) { Some(lo as usize) } else { None };
        vob!(cx, "C04.fixed_size.fixed_iff_single_non_extensible_size", got == want);
    }
    #[cfg(kani)]
    { let _ = cx; }
}

/// C07 — rendering of values to Rust expressions (`Rasn::value_to_tokens`, generator/rasn/utils.rs): each value kind
/// denotes the same abstract value in the emitted expression.
pub fn contract_value_rendering<C: Ctx>(cx: &mut C) {
    #[cfg(not(kani))]
    {
        let backend = crate::generator::rasn::Rasn::default();
        let case = cx.choose(12);
        let (value, want): (ASN1Value, String) = match case {
            0 => (ASN1Value::Null, "()".into()),
            1 => (ASN1Value::Boolean(true), "true".into()),
            2 => (ASN1Value::Boolean(false), "false".into()),
            3 => (ASN1Value::BitString(vec![true, false, true, true]), "[true , false , true , true] . into_iter () . collect ()".into()),
            4 => (ASN1Value::BitString(vec![]), "[] . into_iter () . collect ()".into()),
            5 => (ASN1Value::OctetString(vec![0, 165, 255]), "< OctetString as From < & 'static [u8] >> :: from (& [0 , 165 , 255])".into()),
            6 => (ASN1Value::LinkedCharStringValue(CharacterStringType::UTF8String, "a\"b".into()), "String :: from (\"a\\\"b\")".into()),
            7 => (ASN1Value::LinkedCharStringValue(CharacterStringType::IA5String, "hi".into()), "Ia5String :: try_from (\"hi\") . unwrap ()".into()),
            8 => (ASN1Value::EnumeratedValue { enumerated: "Colour".into(), enumerable: "green".into() }, "Colour :: green".into()),
            9 => (ASN1Value::LinkedArrayLikeValue(vec![Box::new(ASN1Value::Boolean(true)), Box::new(ASN1Value::Boolean(false)), Box::new(ASN1Value::Boolean(true))]), "alloc :: vec ! [true , false , true]".into()),
            10 => (ASN1Value::LinkedNestedValue { supertypes: vec!["Outer".into(), "Inner".into()], value: Box::new(ASN1Value::LinkedIntValue { integer_type: IntegerType::Uint8, value: 7 }) }, "Outer (Inner (7))".into()),
            _ => (ASN1Value::LinkedElsewhereDefinedValue { parent: None, identifier: "max-value".into(), can_be_const: true }, "MAX_VALUE".into()),
        };
        cx.describe(|| format!("value={value:?}"));
        match backend.value_to_tokens(&value, None) {
            Ok(ts) => { vob!(cx, "C07.value_rendering.expression_denotes_the_value", ts.to_string() == want); }
            Err(_) => { vob!(cx, "C07.value_rendering.renders", false); }
        }
    }
    #[cfg(kani)]
    { let _ = cx; }
}

/// C07 — value assignments through the whole pipeline (`Compiler::compile_to_string`: lexer value parsers ->
/// link_with_type -> generate_value / value_to_tokens): the emitted constant denotes the source value.
pub fn contract_pipeline_value_assignments<C: Ctx>(cx: &mut C) {
    #[cfg(not(kani))]
    {
        let kind = cx.choose(17);
        let (decl, want): (String, String) = match kind {
            // references to OCTET STRING / character string values, from a name that sorts before or after the referenced one, and as DEFAULT
            16 => { let (ty, val, expr) = [("OCTET STRING", "'AB'H", "from (& [171])"), ("IA5String", "\"abc\"", "Ia5String :: try_from (\"abc\") . unwrap ()"), ("UTF8String", "\"abc\"", "String :: from (\"abc\")"), ("BIT STRING", "'101'B", "[true , false , true] . into_iter () . collect ()")][cx.choose(4)];
                    let form = cx.choose(3);
                    (match form { 0 => format!("m-val {ty} ::= {val} a-ref {ty} ::= m-val"), 1 => format!("m-val {ty} ::= {val} z-ref {ty} ::= m-val"), _ => format!("m-val {ty} ::= {val} Sq ::= SEQUENCE {{ f {ty} DEFAULT m-val }}") },
                     match form { 0 => format!("pub static A_REF : LazyLock < @T > = LazyLock :: new (|| @P{expr}"), 1 => format!("pub static Z_REF : LazyLock < @T > = LazyLock :: new (|| @P{expr}"), _ => format!("fn sq_f_default () -> @T {{ @P{expr} }}") }
                        .replace("@T", match ty { "OCTET STRING" => "OctetString", "IA5String" => "Ia5String", "UTF8String" => "Utf8String", _ => "BitString" })
                        .replace("@P", if ty == "OCTET STRING" { "< OctetString as From < & 'static [u8] >> :: " } else { "" })) }
            // a value assignment whose value is a reference to another value assignment
            15 => { let (ty, rust, n) = [("INTEGER", "", 5i128), ("INTEGER (0..255)", "u8", 200), ("INTEGER (-128..127)", "i8", -7)][cx.choose(3)];
                    (format!("a {ty} ::= {n} v {ty} ::= a"), if rust.is_empty() { format!("pub static V : LazyLock < Integer > = LazyLock :: new (|| Integer :: from ({n}i128))") } else { format!("pub const V : {rust} = {} ;", if n < 0 { format!("- {}", -n) } else { n.to_string() }) }) }
            // an enumeral that two ENUMERATED types declare: the value is the enumeral OF ITS GOVERNING TYPE
            14 => { let gov = ["Alpha", "Zeta", "Mid"][cx.choose(3)]; let en = ["red", "blue"][cx.choose(2)];
                    (format!("Alpha ::= ENUMERATED {{ red, blue }} Zeta ::= ENUMERATED {{ green, red, blue }} Mid ::= ENUMERATED {{ blue(7), red(9) }} v {gov} ::= {en}"), format!("pub const V : {gov} = {gov} :: {en} ;")) }
            // a value of a NAMED collection type with a builtin element: the element type is hoisted as `Anonymous<Name>`
            13 => { let set = cx.any_bool(); let name = if set { "NamedSet" } else { "NamedSeq" };
                    (format!("{name} ::= {} OF INTEGER v {name} ::= {{ 1, 2 }}", if set { "SET" } else { "SEQUENCE" }),
                     if set { format!("{name} (SetOf :: from_vec (alloc :: vec ! [Anonymous{name} (Integer :: from (1i128)) , Anonymous{name} (Integer :: from (2i128))]))") } else { format!("{name} (alloc :: vec ! [Anonymous{name} (Integer :: from (1i128)) , Anonymous{name} (Integer :: from (2i128))])") }) }
            10 => { let alt = cx.choose(2); let n = [0i128, 5, -7][cx.choose(3)];
                    (format!("Ch ::= CHOICE {{ num INTEGER, flag BOOLEAN }} v Ch ::= {}", if alt == 0 { format!("num:{n}") } else { "flag:TRUE".to_string() }),
                     if alt == 0 { format!("Ch :: num (Integer :: from ({}i128))", if n < 0 { format!("- {}", -n) } else { n.to_string() }) } else { "Ch :: flag (true)".to_string() }) }
            11 => { let written = cx.any_bool(); let a = [5i128, 300][cx.choose(2)];
                    (format!("Pp ::= SEQUENCE {{ a INTEGER, b BOOLEAN DEFAULT TRUE }} v Pp ::= {{ a {a}{} }}", if written { ", b FALSE" } else { "" }), format!("Pp :: new (Integer :: from ({a}i128) , {})", !written)) }
            12 => { let n = cx.choose(4); let items: Vec<bool> = (0..n).map(|_| cx.any_bool()).collect();
                    (format!("v SEQUENCE OF BOOLEAN ::= {{ {} }}", items.iter().map(|b| if *b { "TRUE" } else { "FALSE" }).collect::<Vec<_>>().join(", ")), format!("alloc :: vec ! [{}]", items.iter().map(|b| b.to_string()).collect::<Vec<_>>().join(" , "))) }
            0 => { let b = cx.any_bool(); (format!("v BOOLEAN ::= {}", if b { "TRUE" } else { "FALSE" }), format!("pub const V : bool = {b} ;")) }
            1 => ("v NULL ::= NULL".into(), "pub const V : () = () ;".into()),
            2 => { let n = [0i128, 1, -1, -42, 255, 256, -129, 4294967296, 170141183460469231731687303715884105727, -170141183460469231731687303715884105728][cx.choose(10)];
                   (format!("v INTEGER ::= {n}"), format!("Integer :: from ({}i128)", if n < 0 { format!("- {}", n.unsigned_abs()) } else { n.to_string() })) }
            3 => { let n = [0i128, 1, 200, 255][cx.choose(4)]; (format!("v INTEGER (0..255) ::= {n}"), format!("pub const V : u8 = {n} ;")) }
            4 => { let n = [-128i128, -1, 0, 127][cx.choose(4)]; (format!("v INTEGER (-128..127) ::= {n}"), format!("pub const V : i8 = {} ;", if n < 0 { format!("- {}", -n) } else { n.to_string() })) }
            5 => { let bytes: Vec<u8> = (0..cx.choose(3)).map(|_| [0u8, 0x0B, 0x4C, 0xA5, 0xC4, 0xFF][cx.choose(6)]).collect();
                   (format!("v OCTET STRING ::= '{}'H", bytes.iter().map(|b| format!("{b:02X}")).collect::<String>()), format!("from (& [{}])", bytes.iter().map(|b| b.to_string()).collect::<Vec<_>>().join(" , "))) }
            6 => { let bits: Vec<bool> = (0..cx.choose(5)).map(|_| cx.any_bool()).collect();
                   (format!("v BIT STRING ::= '{}'B", bits.iter().map(|b| if *b { '1' } else { '0' }).collect::<String>()), format!("[{}] . into_iter () . collect ()", bits.iter().map(|b| b.to_string()).collect::<Vec<_>>().join(" , "))) }
            7 => { let d = ["4", "C", "A5", "4C0", "F0F"][cx.choose(5)];
                   let bits: Vec<String> = d.chars().flat_map(|c| { let v = c.to_digit(16).unwrap(); (0..4).rev().map(move |k| ((v >> k) & 1 == 1).to_string()) }).collect();
                   (format!("v BIT STRING ::= '{d}'H"), format!("[{}] . into_iter () . collect ()", bits.join(" , "))) }
            8 => { let (s, lit) = [("plain", "\"plain\""), ("a\"\"b", "\"a\\\"b\""), ("", "\"\""), ("x\"\"\"\"y", "\"x\\\"\\\"y\""), (", ", "\", \""), (" - ", "\" - \""), (" ", "\" \""), ("two  words ", "\"two  words \"")][cx.choose(8)];
                   (format!("v UTF8String ::= \"{s}\""), format!("String :: from ({lit})")) }
            _ => { let (src, arcs) = [("{ iso member-body 840 }", "1u32 , 2u32 , 840u32"), ("{ itu-t identified-organization 0 5 }", "0u32 , 4u32 , 0u32 , 5u32"), ("{ 1 3 6 1 }", "1u32 , 3u32 , 6u32 , 1u32"), ("{ joint-iso-itu-t 5 }", "2u32 , 5u32")][cx.choose(4)];
                   (format!("v OBJECT IDENTIFIER ::= {src}"), format!("Oid :: const_new (& [{arcs}])")) }
        };
        // simple kinds are also written as a DEFAULT and through a chain of type references
        let position = if kind < 10 { cx.choose(3) } else { 0 };
        // an OBJECT IDENTIFIER DEFAULT is refused with a warning ("currently unsupported"): loud, not part of this claim
        if !cx.assume(!(kind == 9 && position == 1)) { return; }
        let (decl, want) = if position == 0 { (decl, want) } else {
            let (ty, val) = { let mut p = decl[2..].splitn(2, " ::= "); (p.next().unwrap_or("").to_string(), p.next().unwrap_or("").to_string()) };
            let expr = if want.starts_with("pub const V") { want.split(" = ").nth(1).unwrap_or("").trim_end_matches(" ;").to_string() } else { want.clone() };
            if position == 1 { (format!("S ::= SEQUENCE {{ f {ty} DEFAULT {val} }}"), format!("fn s_f_default () -> @@ {expr} }}")) }
            // (mixed-case type names: an all-capitals name followed by `{ .. }` is lexed as an information object of a CLASS)
            else { (format!("Aa ::= {ty} Bb ::= Aa v Bb ::= {val}"), expr) }
        };
        let src = format!("M DEFINITIONS AUTOMATIC TAGS ::= BEGIN {decl} END");
        cx.describe(|| decl.clone());
        match crate::Compiler::<crate::generator::rasn::Rasn, _>::new().add_asn_literal(&src).compile_to_string() {
            Ok(res) if position == 1 => {
                // the body of the default function is the expression that denotes the value
                let expr = want.split("@@ ").nth(1).unwrap_or("").trim_end_matches(" }").to_string();
                let body = res.generated.split("fn s_f_default () -> ").nth(1).and_then(|r| r.splitn(2, '{').nth(1)).map(|r| r.split("} ").next().unwrap_or("").trim().to_string()).unwrap_or_default();
                vob!(cx, "C07.pipeline.default_denotes_the_source_value", res.warnings.is_empty() && !expr.is_empty() && body.contains(&expr));
            }
            Ok(res) if position == 2 => {
                let lazy = format!("LazyLock < Bb > = LazyLock :: new (|| Bb (Aa ({}", want);
                let lazy_octets = format!("LazyLock < Bb > = LazyLock :: new (|| Bb (Aa (< OctetString as From < & 'static [u8] >> :: {}", want);
                let constant = format!("pub const V : Bb = Bb (Aa ({})) ;", want);
                let found = res.generated.contains(&lazy) || res.generated.contains(&lazy_octets) || res.generated.contains(&constant);
                vob!(cx, "C07.pipeline.value_through_a_chain_of_type_references_denotes_the_source_value", res.warnings.is_empty() && found);
            }
            Ok(res) if kind == 13 => { vob!(cx, "C07.pipeline.value_of_a_named_collection_type_is_built_from_its_element_type", res.warnings.is_empty() && res.generated.contains(&want)); }
            Ok(res) => { vob!(cx, "C07.pipeline.value_assignment_denotes_the_source_value", res.warnings.is_empty() && res.generated.contains(&want)); }
            Err(_) => { vob!(cx, "C07.pipeline.value_assignment_compiles", false); }
        }
    }
    #[cfg(kani)]
    { let _ = cx; }
}

/// C04 — value / size annotation on TYPE ASSIGNMENTS (generator/rasn/builder.rs generate_integer, generate_octet_string,
/// generate_bit_string, generate_character_string, generate_sequence_or_set_of -> format_range_annotations):
/// the annotation is the range of the constraint, flagged extensible exactly with the marker; a fixed SIZE(n) on
/// BIT STRING / OCTET STRING becomes FixedBitString<n> / FixedOctetString<n>.
pub fn contract_generate_assignment_bounds<C: Ctx>(cx: &mut C) {
    #[cfg(not(kani))]
    {
        use crate::intermediate::constraints::*;
        use crate::intermediate::types::*;
        use crate::generator::Backend;
        use std::{cell::RefCell, rc::Rc};
        let kind = cx.choose(7); // 0 INTEGER value range, 1 OCTET STRING size, 2 BIT STRING size, 3 IA5String size, 4 SEQUENCE OF size, 5 value range on a type reference, 6 negative value range on INTEGER
        let lo = [Some(0i128), Some(2), None, Some(-3)][cx.choose(4)];
        if !cx.assume(lo != Some(-3) || kind >= 5) { return; }
        if !cx.assume(kind != 6 || lo == Some(-3)) { return; }
        let hi = [Some(2i128), Some(9), None][cx.choose(3)];
        if !cx.assume(match (lo, hi) { (Some(l), Some(h)) => l <= h, (None, None) => false, _ => true }) { return; }
        if !cx.assume(kind == 0 || kind >= 5 || lo.is_some()) { return; }
        let ext = cx.any_bool();
        let range = SubtypeElements::ValueRange { min: lo.map(ASN1Value::Integer), max: hi.map(ASN1Value::Integer), extensible: ext };
        let c = Constraint::Subtype(ElementSetSpecs { set: ElementOrSetOperation::Element(if kind == 0 || kind >= 5 { range } else { SubtypeElements::SizeConstraint(Box::new(ElementOrSetOperation::Element(range))) }), extensible: false });
        let ty = match kind {
            0 | 6 => ASN1Type::Integer(Integer { constraints: vec![c], distinguished_values: None }),
            5 => ASN1Type::ElsewhereDeclaredType(DeclarationElsewhere { parent: None, module: None, identifier: "Temp".into(), constraints: vec![c] }),
            1 => ASN1Type::OctetString(OctetString { constraints: vec![c] }),
            2 => ASN1Type::BitString(BitString { constraints: vec![c], distinguished_values: None }),
            3 => ASN1Type::CharacterString(CharacterString { constraints: vec![c], ty: CharacterStringType::IA5String }),
            _ => ASN1Type::SequenceOf(SequenceOrSetOf { constraints: vec![c], element_type: Box::new(ASN1Type::Boolean(Boolean { constraints: vec![] })), element_tag: None, is_recursive: false }),
        };
        cx.describe(|| format!("A ::= {} ({}{}..{}{}{})", ["INTEGER", "OCTET STRING", "BIT STRING", "IA5String", "SEQUENCE OF BOOLEAN (size)", "Temp (type reference)", "INTEGER"][kind], if kind == 0 || kind >= 5 { "" } else { "SIZE(" }, lo.map_or("MIN".into(), |v| v.to_string()), hi.map_or("MAX".into(), |v| v.to_string()), if ext { ", ..." } else { "" }, if kind == 0 || kind >= 5 { "" } else { ")" }));
        let h = Rc::new(RefCell::new(ModuleHeader { name: "M".into(), module_identifier: None, encoding_reference_default: None, tagging_environment: TaggingEnvironment::Automatic, extensibility_environment: ExtensibilityEnvironment::Explicit, imports: vec![], exports: None }));
        let tld = ToplevelDefinition::Type(ToplevelTypeDefinition { comments: String::new(), tag: None, name: "A".into(), ty, parameterization: None, module_header: Some(h) });
        let mut backend = crate::generator::rasn::Rasn::default();
        let generated = match backend.generate_module(vec![tld]) { Ok(m) if m.warnings.is_empty() => m.generated.unwrap_or_default(), _ => { vob!(cx, "C04.generate.constrained_assignment_is_generated", false); return; } };
        let text = match (lo, hi) { (Some(l), Some(h)) if l == h => format!("{l}"), (Some(l), Some(h)) => format!("{l}..={h}"), (Some(l), None) => format!("{l}.."), (None, Some(h)) => format!("..={h}"), _ => String::new() };
        let kw = if kind == 0 || kind >= 5 { "value" } else { "size" };
        let want = if ext { format!("{kw} (\"{text}\" , extensible)") } else { format!("{kw} (\"{text}\")") };
        let fixed = (kind == 1 || kind == 2) && !ext && lo.is_some() && lo == hi;
        if fixed {
            let n = lo.unwrap();
            vob!(cx, "C04.generate.fixed_size_strings_become_fixed_types", generated.contains(&format!("{} < {n}", if kind == 1 { "FixedOctetString" } else { "FixedBitString" })));
        } else if kind != 0 && kind < 5 && lo == Some(0) && hi.is_none() && !ext {
            // SIZE(0..MAX) is the default and may be left out
            vob!(cx, "C04.generate.assignment_annotation_is_the_constraint_range", generated.contains(&want) || !generated.contains("size ("));
        } else {
            vob!(cx, "C04.generate.assignment_annotation_is_the_constraint_range", generated.contains(&want));
        }
    }
    #[cfg(kani)]
    { let _ = cx; }
}


/// C05 / C02 — emission of an extension-addition group (Rasn::format_sequence_or_set_members + the hoisted group type):
/// ONE optional member marked extension_addition_group whose type contains exactly the grouped components in order.
pub fn contract_generate_extension_group<C: Ctx>(cx: &mut C) {
    #[cfg(not(kani))]
    {
        use crate::intermediate::types::*;
        use crate::generator::Backend;
        use std::{cell::RefCell, rc::Rc};
        let set = cx.any_bool();
        let n_root = cx.choose(3);
        let g = 1 + cx.choose(3);           // components in the group
        let after = cx.any_bool();          // a plain addition after the group
        let b = |name: String, optional: bool| SequenceOrSetMember { name, tag: None, ty: ASN1Type::Boolean(Boolean { constraints: vec![] }), optionality: if optional { Optionality::Optional } else { Optionality::Required }, is_recursive: false, constraints: vec![] };
        let mut members: Vec<SequenceOrSetMember> = (0..n_root).map(|i| b(format!("r{i}"), false)).collect();
        let group = SequenceOrSet { components_of: vec![], extensible: None, constraints: vec![], members: (0..g).map(|i| b(format!("g{i}"), i % 2 == 1)).collect() };
        members.push(SequenceOrSetMember { name: "ext_group_g0".into(), tag: None, ty: ASN1Type::Sequence(group), optionality: Optionality::Required, is_recursive: false, constraints: vec![] });
        if after { members.push(b("z".into(), true)); }
        let s = SequenceOrSet { components_of: vec![], extensible: Some(n_root), constraints: vec![], members };
        cx.describe(|| format!("T ::= {} {{ {n_root} root components, ..., [[ {g} components ]]{} }}", if set { "SET" } else { "SEQUENCE" }, if after { ", z BOOLEAN OPTIONAL" } else { "" }));
        let h = Rc::new(RefCell::new(ModuleHeader { name: "M".into(), module_identifier: None, encoding_reference_default: None, tagging_environment: TaggingEnvironment::Automatic, extensibility_environment: ExtensibilityEnvironment::Explicit, imports: vec![], exports: None }));
        let tld = ToplevelDefinition::Type(ToplevelTypeDefinition { comments: String::new(), tag: None, name: "T".into(), ty: if set { ASN1Type::Set(s) } else { ASN1Type::Sequence(s) }, parameterization: None, module_header: Some(h) });
        let mut backend = crate::generator::rasn::Rasn::default();
        let generated = match backend.generate_module(vec![tld]) { Ok(m) if m.warnings.is_empty() => m.generated.unwrap_or_default(), _ => { vob!(cx, "C05.generate.type_with_extension_group_is_generated", false); return; } };
        let Some((_, fields)) = item_of(&generated, "T") else { vob!(cx, "C05.generate.type_with_extension_group_is_generated", false); return; };
        vob!(cx, "C02.generate.group_is_one_member", fields.len() == n_root + 1 + after as usize);
        if fields.len() != n_root + 1 + after as usize { return; }
        let gf = &fields[n_root];
        vob!(cx, "C05.generate.group_member_is_an_optional_extension_addition_group", gf.contains("extension_addition_group") && gf.contains(": Option <"));
        // C02: an extension addition group is absent from version-1 values, so its field is an Option
        vob!(cx, "C02.generate.group_member_is_an_option", gf.contains(": Option <"));
        let mut plain_ok = true;
        for (i, f) in fields.iter().enumerate() { if i != n_root { plain_ok = plain_ok && !f.contains("extension_addition_group") && (f.contains("extension_addition") == (i > n_root)); } }
        vob!(cx, "C05.generate.only_the_group_is_marked_as_group", plain_ok);
        // the type the group member refers to holds exactly the grouped components, in order
        let ty_name = gf.rsplit(':').next().unwrap_or("").replace("Option <", "").replace('>', "").trim().to_string();
        let inner = item_of(&generated, &ty_name);
        let want: Vec<String> = (0..g).map(|i| if i % 2 == 1 { format!("pub g{i} : Option < bool >") } else { format!("pub g{i} : bool") }).collect();
        vob!(cx, "C05.generate.group_type_holds_exactly_the_grouped_components_in_order", matches!(&inner, Some((_, fs)) if *fs == want));
    }
    #[cfg(kani)]
    { let _ = cx; }
}

include!(concat!(env!("LIBRASN_VERIF_DIR"), "/hooks/cases.rs"));
