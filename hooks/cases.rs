// Included at the end of hooks/root.rs.  Table-driven whole-pipeline contract: ASN.1 module texts compiled by the real
// Compiler::compile_to_string, each with the fragments X.680 / the property demand of the generated bindings.
// Bounded stand-in (one case = one module set); never counted as proved.  All texts are compared with white-space
// removed, so the check does not depend on rustfmt being available.
#[cfg(not(kani))]
pub mod cases {
    use super::*;

    pub enum Chk {
        /// the bindings contain the fragment
        Has(&'static str),
        /// the bindings do not contain the fragment
        Lacks(&'static str),
        /// the item that starts with the header (e.g. `pubstructT{`) contains the fragment before its first `}`
        ItemHas(&'static str, &'static str),
        ItemLacks(&'static str, &'static str),
        /// the fragment occurs exactly n times in the item
        ItemCount(&'static str, &'static str, usize),
        /// the attributes written directly in front of the item header contain the fragment
        AttrsHave(&'static str, &'static str),
        /// compilation reports no warning
        NoWarnings,
    }
    use Chk::*;

    pub struct Case { pub ob: &'static str, pub srcs: &'static [&'static str], pub checks: &'static [Chk] }

    fn squeeze(s: &str) -> String { s.chars().filter(|c| !c.is_whitespace()).collect() }
    fn item<'a>(out: &'a str, header: &str) -> Option<&'a str> {
        let start = out.find(header)?;
        let len = out[start..].find('}')?;
        Some(&out[start..start + len])
    }
    fn attrs<'a>(out: &'a str, header: &str) -> Option<&'a str> {
        let end = out.find(header)?;
        let start = out[..end].rfind(|c| c == '}' || c == ';').map(|i| i + 1).unwrap_or(0);
        Some(&out[start..end])
    }

    pub const CASES: &[Case] = &[
        // ---- C02: a component of an ANONYMOUS constructed CHOICE alternative is linked like any other component
        Case { ob: "C02.cases.component_of_an_anonymous_choice_alternative_is_instantiated_and_linked", srcs: &["M DEFINITIONS AUTOMATIC TAGS ::= BEGIN
            SetupRelease { ElementTypeParam } ::= CHOICE { release NULL, setup ElementTypeParam }
            Info ::= SEQUENCE { test BOOLEAN }
            maxN INTEGER ::= 200
            Config ::= CHOICE { direct SetupRelease { Info }, wrapped SEQUENCE { flag BOOLEAN, inner SetupRelease { Info } OPTIONAL, n INTEGER (0..maxN) }, none NULL }
            Deep ::= SEQUENCE { c CHOICE { w SET { inner SetupRelease { Info }, m INTEGER (0..maxN) } } }
            END"],
            checks: &[NoWarnings, ItemHas("pubenumConfigWrappedInner{", "release(()),setup(Info)"), ItemHas("pubstructConfigWrapped{", "pubinner:Option<ConfigWrappedInner>"),
                      ItemHas("pubstructConfigWrapped{", "#[rasn(value(\"0..=200\"))]pubn:u8"), Lacks("Option<SetupRelease>"), Lacks(":SetupRelease,"),
                      ItemHas("pubstructDeepCW{", "#[rasn(value(\"0..=200\"))]pubm:u8"), ItemHas("pubenumDeepCWInner{", "setup(Info)")] },
        // ---- C02: a parameterized type used inside another parameterized type is instantiated with the actual parameter,
        //      whether the templates' names sort before or after the instance's
        Case { ob: "C02.cases.nested_parameterized_types_are_instantiated_in_any_definition_order", srcs: &["M DEFINITIONS AUTOMATIC TAGS ::= BEGIN
            Inner {T} ::= SEQUENCE { i T }
            ZOuter {T} ::= SEQUENCE { inner Inner {T}, k INTEGER (0..3) }
            Use ::= ZOuter {BOOLEAN}
            AOuter {T} ::= SEQUENCE { inner Inner {T}, k INTEGER (0..3) }
            Vse ::= AOuter {BOOLEAN}
            ZInner {T} ::= SET { j T }
            BOuter {T} ::= SEQUENCE { inner ZInner {T} }
            Wse ::= BOuter {INTEGER}
            END"],
            checks: &[NoWarnings, ItemHas("pubstructUseInner{", "pubi:bool"), ItemHas("pubstructVseInner{", "pubi:bool"), ItemHas("pubstructWseInner{", "pubj:Integer"),
                      Lacks("pubi:T,"), Lacks("pubj:T,")] },
        // ---- C02 / C09: COMPONENTS OF inside a [[ ]] version group
        Case { ob: "C02.cases.components_of_inside_a_version_group_are_kept", srcs: &["M DEFINITIONS AUTOMATIC TAGS ::= BEGIN
            Base ::= SEQUENCE { x INTEGER, y BOOLEAN OPTIONAL }
            D ::= SEQUENCE { a INTEGER, ..., [[ 2: b BOOLEAN, COMPONENTS OF Base ]], d OCTET STRING }
            E ::= SEQUENCE { a INTEGER, ..., [[ COMPONENTS OF Base, c NULL ]] }
            END"],
            checks: &[NoWarnings, ItemHas("pubstructDExtGroupB{", "pubb:bool"), ItemHas("pubstructDExtGroupB{", "pubx:Integer"), ItemHas("pubstructDExtGroupB{", "puby:Option<bool>"),
                      ItemHas("pubstructD{", "pubext_group_b:Option<DExtGroupB>"), ItemHas("pubstructD{", "pubd:OctetString")] },
        // ---- C02: COMPONENTS OF a type that itself uses COMPONENTS OF — every inherited component exactly once
        Case { ob: "C02.cases.chained_components_of_are_copied_exactly_once_in_any_definition_order", srcs: &["M DEFINITIONS AUTOMATIC TAGS ::= BEGIN
            Top ::= SEQUENCE { top INTEGER (0..255), COMPONENTS OF Wide }
            Wide ::= SEQUENCE { wide BOOLEAN OPTIONAL, COMPONENTS OF Zero }
            Zero ::= SEQUENCE { zero NULL, last OCTET STRING }
            Holder ::= SEQUENCE { inner SET { own INTEGER, COMPONENTS OF Mid } OPTIONAL, tail BOOLEAN }
            Mid ::= SET { mid BOOLEAN, COMPONENTS OF Root }
            Root ::= SET { root IA5String }
            Both ::= SEQUENCE { own INTEGER, COMPONENTS OF One, COMPONENTS OF Two }
            One ::= SEQUENCE { a BOOLEAN }
            Two ::= SEQUENCE { b NULL OPTIONAL }
            Zz ::= SEQUENCE { a INTEGER, COMPONENTS OF Yy }
            Yy ::= SEQUENCE { b BOOLEAN, COMPONENTS OF Xx }
            Xx ::= SEQUENCE { c NULL }
            END"],
            checks: &[NoWarnings, ItemCount("pubstructZz{", "pubc:()", 1), ItemCount("pubstructZz{", "pubb:bool", 1), ItemCount("pubstructZz{", "puba:Integer", 1), ItemCount("pubstructYy{", "pubc:()", 1),
                      ItemCount("pubstructTop{", "pubzero:", 1), ItemCount("pubstructTop{", "publast:", 1), ItemCount("pubstructTop{", "pubwide:", 1), ItemCount("pubstructTop{", "pubtop:u8", 1),
                      ItemCount("pubstructWide{", "pubzero:", 1), ItemCount("pubstructWide{", "publast:", 1),
                      ItemCount("pubstructHolderInner{", "pubroot:", 1), ItemCount("pubstructHolderInner{", "pubmid:", 1), ItemCount("pubstructHolderInner{", "pubown:", 1),
                      ItemCount("pubstructBoth{", "puba:bool", 1), ItemCount("pubstructBoth{", "pubb:Option<()>", 1)] },
        // ---- C03: the tag of a type assignment whose type is an instance of a parameterized type
        Case { ob: "C03.cases.tag_of_a_parameterized_instance_assignment_is_kept", srcs: &["M DEFINITIONS IMPLICIT TAGS ::= BEGIN
            Param {T} ::= SEQUENCE { a [0] T, b [1] EXPLICIT INTEGER }
            Impl ::= [PRIVATE 2] Param {BOOLEAN}
            ImplEx ::= [APPLICATION 7] EXPLICIT Param {INTEGER}
            Plain ::= [PRIVATE 3] SEQUENCE { a BOOLEAN }
            END"],
            checks: &[AttrsHave("pubstructPlain{", "tag(private,3)"), AttrsHave("pubstructImpl{", "tag(private,2)"), AttrsHave("pubstructImplEx{", "tag(explicit(application,7))")] },
        Case { ob: "C03.cases.tag_of_a_parameterized_instance_assignment_is_kept", srcs: &["M DEFINITIONS EXPLICIT TAGS ::= BEGIN
            Bounded {INTEGER:max} ::= SEQUENCE { a [0] INTEGER (0..max) }
            Five ::= [3] Bounded {5}
            Alt {T} ::= CHOICE { x [0] T, y [1] BOOLEAN }
            AltImpl ::= [APPLICATION 9] Alt {INTEGER}
            END"],
            checks: &[AttrsHave("pubstructFive{", "tag(explicit(context,3))"), AttrsHave("pubenumAltImpl{", "tag(explicit(application,9))")] },
        // ---- C03: tags inside a template follow the TAGS default of the module the template is WRITTEN in
        Case { ob: "C03.cases.template_tags_follow_the_module_they_are_written_in", srcs: &["Templates DEFINITIONS AUTOMATIC TAGS ::= BEGIN
            Param {T} ::= SEQUENCE { a [0] T, b [1] IMPLICIT INTEGER, c [APPLICATION 2] EXPLICIT BOOLEAN, d CHOICE { x [5] T, y [PRIVATE 6] NULL } }
            Bounded {INTEGER:max} ::= SET { v [3] INTEGER (0..max) }
            Local ::= Param {BOOLEAN}
            END", "Users DEFINITIONS EXPLICIT TAGS ::= BEGIN IMPORTS Param, Bounded FROM Templates;
            Impl ::= Param {BOOLEAN}
            Five ::= Bounded {5}
            Own ::= SEQUENCE { o [0] INTEGER, p [1] IMPLICIT INTEGER }
            END", "Third DEFINITIONS IMPLICIT TAGS ::= BEGIN IMPORTS Param FROM Templates;
            ImplI ::= Param {BOOLEAN}
            END"],
            checks: &[ItemHas("pubstructOwn{", "#[rasn(tag(explicit(context,0)))]pubo:"), ItemHas("pubstructOwn{", "#[rasn(tag(context,1))]pubp:"),
                      ItemHas("pubstructImpl{", "#[rasn(tag(context,0))]puba:bool"), ItemHas("pubstructImpl{", "#[rasn(tag(context,1))]pubb:Integer"),
                      ItemHas("pubstructImpl{", "#[rasn(tag(explicit(application,2)))]pubc:bool"),
                      ItemHas("pubenumImplD{", "#[rasn(tag(context,5))]x(bool)"), ItemHas("pubenumImplD{", "#[rasn(tag(private,6))]y(())"),
                      ItemHas("pubstructFive{", "tag(context,3))]pubv:"),
                      ItemHas("pubstructLocal{", "#[rasn(tag(context,0))]puba:bool"), ItemHas("pubstructImplI{", "#[rasn(tag(context,0))]puba:bool"),
                      ItemHas("pubstructImplI{", "#[rasn(tag(explicit(application,2)))]pubc:bool")] },
        // ---- C04: serial SIZE constraints on BIT STRING / OCTET STRING assignments — the marker of ANY of them makes the size extensible
        Case { ob: "C04.cases.serial_size_constraints_keep_the_extension_marker", srcs: &["M DEFINITIONS AUTOMATIC TAGS ::= BEGIN
            Octets ::= OCTET STRING (SIZE(4))(SIZE(1..8, ...))
            Bits ::= BIT STRING (SIZE(8))(SIZE(0..16), ...)
            Flags ::= BIT STRING { a(0), b(1) } (SIZE(2))(SIZE(2, ...))
            Rev ::= OCTET STRING (SIZE(1..8, ...))(SIZE(4))
            Plain ::= OCTET STRING (SIZE(4))(SIZE(1..8))
            Single ::= OCTET STRING (SIZE(4, ...))
            Holder ::= SEQUENCE { octets OCTET STRING (SIZE(4))(SIZE(1..8, ...)) }
            END"],
            checks: &[AttrsHave("pubstructOctets(", "size(\"4\",extensible)"), Has("pubstructOctets(pubOctetString)"), AttrsHave("pubstructBits(", "size(\"8\",extensible)"), Has("pubstructBits(pubBitString)"),
                      AttrsHave("pubstructFlags(", "size(\"2\",extensible)"), AttrsHave("pubstructRev(", "size(\"4\",extensible)"), Has("pubstructRev(pubOctetString)"),
                      Has("pubstructPlain(pubFixedOctetString<4usize>)"), AttrsHave("pubstructSingle(", "size(\"4\",extensible)"),
                      ItemHas("pubstructHolder{", "#[rasn(size(\"4\",extensible))]puboctets:OctetString")] },
        // ---- C04: a value reference in a bound is the value assignment of that name, not a same-named number of an unrelated type
        Case { ob: "C04.cases.value_reference_in_a_bound_wins_over_a_foreign_named_number", srcs: &["M DEFINITIONS AUTOMATIC TAGS ::= BEGIN
            limit INTEGER ::= 100
            Prio ::= INTEGER { low(0), limit(10) }
            Colour ::= ENUMERATED { red, green, limit }
            Count ::= INTEGER (0..limit)
            Buf ::= OCTET STRING (SIZE(1..limit))
            Exact ::= INTEGER (limit)
            Rec ::= SEQUENCE { n INTEGER (0..limit | 200), l SEQUENCE (SIZE(0..limit)) OF BOOLEAN }
            END"],
            checks: &[NoWarnings, AttrsHave("pubstructCount(", "value(\"0..=100\")"), AttrsHave("pubstructBuf(", "size(\"1..=100\")"), AttrsHave("pubstructExact(", "value(\"100\")"),
                      ItemHas("pubstructRec{", "#[rasn(value(\"0..=200\"))]pubn:u8"), ItemHas("pubstructRec{", "#[rasn(size(\"0..=100\"))]publ:SequenceOf<bool>")] },
        Case { ob: "C04.cases.named_number_bounds_resolve_against_their_own_type", srcs: &["M DEFINITIONS AUTOMATIC TAGS ::= BEGIN
            four INTEGER ::= 4
            limit INTEGER ::= 100
            Prio ::= INTEGER { low(0), high(10) } (low..high)
            Sub ::= Prio (low..5)
            Buf ::= OCTET STRING (SIZE(1..four))
            Key ::= OCTET STRING (SIZE(four))
            Rec ::= SEQUENCE { n INTEGER (four..limit), l SEQUENCE (SIZE(0..four)) OF BOOLEAN }
            END"],
            checks: &[NoWarnings, AttrsHave("pubstructPrio(", "value(\"0..=10\")"), AttrsHave("pubstructSub(", "value(\"0..=5\")"), AttrsHave("pubstructBuf(", "size(\"1..=4\")"),
                      Has("pubstructKey(pubFixedOctetString<4usize>)"), ItemHas("pubstructRec{", "#[rasn(value(\"4..=100\"))]pubn:u8"), ItemHas("pubstructRec{", "#[rasn(size(\"0..=4\"))]publ:SequenceOf<bool>")] },
        // ---- C04 / C06: a dummy reference of a parameterized type is bound to the ACTUAL parameter, whatever value, named number or
        //      enumeral of the module shares its name and in whatever order the definitions are processed (template named before / after the instance)
        Case { ob: "C04.cases.dummy_reference_is_bound_to_the_actual_parameter_not_to_a_same_named_definition", srcs: &["M DEFINITIONS AUTOMATIC TAGS ::= BEGIN
            Level ::= ENUMERATED { lower, upper }
            Prio ::= INTEGER { low(0), top(7) }
            hi INTEGER ::= 10
            ParamType { INTEGER: upper } ::= SEQUENCE { f INTEGER (0..upper) }
            Impl ::= ParamType { 70000 }
            AParamType { INTEGER: upper } ::= SEQUENCE { f INTEGER (0..upper) }
            Bmpl ::= AParamType { 70000 }
            ZTop { INTEGER: top } ::= INTEGER (0..top)
            Named ::= ZTop { 300 }
            ZHi { INTEGER: hi } ::= OCTET STRING (SIZE(1..hi))
            Sized ::= ZHi { 20 }
            END"],
            checks: &[NoWarnings, ItemHas("pubstructImpl{", "#[rasn(value(\"0..=70000\"))]pubf:u32"), ItemHas("pubstructBmpl{", "#[rasn(value(\"0..=70000\"))]pubf:u32"),
                      AttrsHave("pubstructNamed(", "value(\"0..=300\")"), AttrsHave("pubstructSized(", "size(\"1..=20\")")] },
        Case { ob: "C06.cases.width_of_a_template_instance_follows_the_actual_parameter", srcs: &["M DEFINITIONS AUTOMATIC TAGS ::= BEGIN
            Level ::= ENUMERATED { lower, upper }
            ParamType { INTEGER: upper } ::= SEQUENCE { f INTEGER (0..upper) }
            Impl ::= ParamType { 70000 }
            ZTop { INTEGER: upper } ::= INTEGER (0..upper)
            Named ::= ZTop { 300 }
            END"],
            checks: &[ItemHas("pubstructImpl{", "pubf:u32"), Has("pubstructNamed(pubu16)")] },
        // ---- C06: the literal of a DEFAULT is declared with the type of the field, in whatever order the definitions are processed
        //      (the referenced type's bound is itself a reference; the user's name sorts before / after the referenced type's)
        Case { ob: "C06.cases.default_literal_has_the_type_of_the_field_in_any_definition_order", srcs: &["M DEFINITIONS AUTOMATIC TAGS ::= BEGIN
            big INTEGER ::= 70000
            E ::= INTEGER { one(1), top(70000) } (0..top)
            F ::= SEQUENCE { f E DEFAULT one, g INTEGER (0..big) DEFAULT 2 }
            A ::= SEQUENCE { f E DEFAULT one, h Zz DEFAULT 3 }
            Zz ::= INTEGER (0..big)
            Zy ::= SEQUENCE { h Zz DEFAULT 3 }
            END"],
            checks: &[NoWarnings, Has("fnf_f_default()->E{E(1)}"), Has("fnf_g_default()->u32{2}"), Has("fna_f_default()->E{E(1)}"), Has("fna_h_default()->Zz{Zz(3)}"), Has("fnzy_h_default()->Zz{Zz(3)}"),
                      Has("pubstructE(pubu32)"), Has("pubstructZz(pubu32)")] },
        // ---- C03: automatic tagging is decided by the tags WRITTEN on the components of the type itself; a tag written in front of
        //      a parameterized type definition is not a tag on the component that instantiates it
        Case { ob: "C03.cases.automatic_tags_depend_only_on_the_components_own_tags", srcs: &["M DEFINITIONS AUTOMATIC TAGS ::= BEGIN
            Signed {ToBeSigned} ::= [APPLICATION 7] SEQUENCE { content ToBeSigned, signature BIT STRING }
            Unsigned {ToBeSigned} ::= SEQUENCE { content ToBeSigned }
            Message ::= SEQUENCE { version INTEGER, body Signed { BOOLEAN } }
            Reply ::= CHOICE { code INTEGER, body Signed { BOOLEAN } }
            PlainMessage ::= SEQUENCE { version INTEGER, body Unsigned { BOOLEAN } }
            Manual ::= SEQUENCE { version [5] INTEGER, body [6] Signed { BOOLEAN } }
            END"],
            checks: &[AttrsHave("pubstructMessage{", "automatic_tags"), ItemHas("pubstructMessage{", "pubversion:Integer,pubbody:MessageBody"), AttrsHave("pubenumReply{", "automatic_tags"),
                      ItemHas("pubenumReply{", "code(Integer),body(ReplyBody)"), AttrsHave("pubstructPlainMessage{", "automatic_tags"),
                      ItemHas("pubstructManual{", "#[rasn(tag(context,5))]pubversion:Integer"), ItemHas("pubstructManual{", "#[rasn(tag(context,6))]pubbody:ManualBody")] },
        // ---- C04 / C06: the extension marker written after an included type is kept: `(T, ...)` is an extensible constraint
        Case { ob: "C04.cases.marker_after_a_type_inclusion_makes_the_bound_extensible", srcs: &["M DEFINITIONS AUTOMATIC TAGS ::= BEGIN
            T ::= SEQUENCE { e INTEGER (INTEGER (0..255), ...), f INTEGER (INTEGER (0..255)), g INTEGER (INCLUDES INTEGER (0..255), ...), h OCTET STRING (SIZE (INTEGER (1..4), ...)) }
            A ::= INTEGER (INTEGER (0..255), ...)
            END"],
            checks: &[ItemHas("pubstructT{", "#[rasn(value(\"0..=255\",extensible))]pube:"), ItemHas("pubstructT{", "#[rasn(value(\"0..=255\"))]pubf:u8"), ItemHas("pubstructT{", "#[rasn(value(\"0..=255\",extensible))]pubg:"),
                      AttrsHave("pubstructA(", "value(\"0..=255\",extensible)")] },
        Case { ob: "C06.cases.extensible_type_inclusion_written_inline_is_not_fixed_width", srcs: &["M DEFINITIONS AUTOMATIC TAGS ::= BEGIN
            T ::= SEQUENCE { e INTEGER (INTEGER (0..255), ...), f INTEGER (INTEGER (0..255)), g INTEGER (INCLUDES INTEGER (0..255), ...) }
            END"],
            checks: &[ItemHas("pubstructT{", "pube:Integer"), ItemHas("pubstructT{", "pubf:u8"), ItemHas("pubstructT{", "pubg:Integer")] },
        // ---- C06: an extensible type inclusion never selects a fixed width
        Case { ob: "C06.cases.extensible_type_inclusion_is_not_fixed_width", srcs: &["M DEFINITIONS AUTOMATIC TAGS ::= BEGIN
            Small ::= INTEGER (0..255)
            T ::= SEQUENCE { extended INTEGER (Small, ...), plain INTEGER (0..255), marked INTEGER (0..255, ...) }
            U ::= CHOICE { wide INTEGER (INCLUDES Small, ...), narrow INTEGER (0..255) }
            END"],
            checks: &[ItemHas("pubstructT{", "pubextended:Integer"), ItemHas("pubstructT{", "pubplain:u8"), ItemHas("pubstructT{", "pubmarked:Integer"), ItemHas("pubenumU{", "wide(Integer)"), ItemHas("pubenumU{", "narrow(u8)")] },
        // ---- C07: an OBJECT IDENTIFIER arc that does not fit the emitted arc type is refused, never wrapped
        Case { ob: "C07.cases.object_identifier_arcs_are_rendered_exactly_or_refused", srcs: &["M DEFINITIONS AUTOMATIC TAGS ::= BEGIN
            plain OBJECT IDENTIFIER ::= { 1 2 840 113549 4294967295 }
            big OBJECT IDENTIFIER ::= { joint-iso-itu-t uuid(25) 4294967296 }
            uuid-root OBJECT IDENTIFIER ::= { joint-iso-itu-t uuid(25) }
            huge OBJECT IDENTIFIER ::= { uuid-root 329800735698586629295641978511506172918 7 }
            END"],
            checks: &[Has("1u32,2u32,840u32,113549u32,4294967295u32"), Lacks("25u32,0u32"), Lacks("3374214134u32")] },
        // ---- C05: the components after the marker, and only those, are extension additions — also when the root list uses COMPONENTS OF
        Case { ob: "C05.cases.additions_are_exactly_the_components_after_the_marker_with_components_of_in_the_root", srcs: &["M DEFINITIONS AUTOMATIC TAGS ::= BEGIN
            B ::= SEQUENCE { x NULL, y BOOLEAN OPTIONAL }
            S ::= SEQUENCE { COMPONENTS OF B, a INTEGER, ..., b BOOLEAN }
            S2 ::= SEQUENCE { a INTEGER, COMPONENTS OF B, ..., b BOOLEAN, c NULL }
            S3 ::= SEQUENCE { a INTEGER, COMPONENTS OF B, ... }
            S4 ::= SEQUENCE { a INTEGER, COMPONENTS OF B }
            S5 ::= SET { COMPONENTS OF B, ..., b BOOLEAN }
            END"],
            checks: &[NoWarnings, ItemHas("pubstructS{", "#[rasn(extension_addition)]pubb:bool"), ItemCount("pubstructS{", "extension_addition", 1), ItemHas("pubstructS{", "pubx:()"), ItemHas("pubstructS{", "puba:Integer"),
                      ItemHas("pubstructS2{", "#[rasn(extension_addition)]pubb:bool,#[rasn(extension_addition)]pubc:()"), ItemCount("pubstructS2{", "extension_addition", 2), ItemHas("pubstructS2{", "puby:Option<bool>"),
                      ItemCount("pubstructS3{", "extension_addition", 0), AttrsHave("pubstructS3{", "non_exhaustive"), ItemCount("pubstructS4{", "extension_addition", 0),
                      ItemHas("pubstructS5{", "#[rasn(extension_addition)]pubb:bool"), ItemCount("pubstructS5{", "extension_addition", 1)] },
        // ---- C05: anonymous extensible types declared inside a [[ ]] version group stay extensible
        Case { ob: "C05.cases.anonymous_types_inside_a_version_group_keep_their_own_extensibility", srcs: &["M DEFINITIONS AUTOMATIC TAGS ::= BEGIN
            Report ::= SEQUENCE { id INTEGER, ..., plain CHOICE { x INTEGER, ..., y BOOLEAN },
              [[ 2: cause CHOICE { radio INTEGER, ..., transport BOOLEAN }, detail SEQUENCE { code INTEGER, ..., text UTF8String OPTIONAL }, level ENUMERATED { low, high, ..., critical }, closed SEQUENCE { n INTEGER } ]],
              [[ 3: note UTF8String ]] }
            END"],
            checks: &[NoWarnings, AttrsHave("pubenumReportPlain{", "#[non_exhaustive]"), AttrsHave("pubenumReportExtGroupCauseCause{", "#[non_exhaustive]"), AttrsHave("pubstructReportExtGroupCauseDetail{", "#[non_exhaustive]"),
                      AttrsHave("pubenumReportExtGroupCauseLevel{", "#[non_exhaustive]"), ItemCount("pubenumReportExtGroupCauseCause{", "extension_addition", 1),
                      ItemCount("pubstructReportExtGroupCauseDetail{", "extension_addition", 1), ItemCount("pubenumReportExtGroupCauseLevel{", "extension_addition", 1),
                      ItemLacks("pubstructReportExtGroupCauseClosed{", "extension_addition")] },
        // ---- C07: INTEGER value assignments in the upper half of the unsigned 64-bit range
        Case { ob: "C07.cases.integer_value_assignments_denote_their_value_at_every_magnitude", srcs: &["M DEFINITIONS AUTOMATIC TAGS ::= BEGIN
            Counter64 ::= INTEGER (0..18446744073709551615)
            Signed64 ::= INTEGER (-9223372036854775808..9223372036854775807)
            max-counter Counter64 ::= 18446744073709551615
            half-counter Counter64 ::= 9223372036854775808
            inline-max INTEGER (0..18446744073709551615) ::= 18446744073709551615
            below-half Counter64 ::= 9223372036854775807
            lowest Signed64 ::= -9223372036854775808
            small INTEGER (0..255) ::= 200
            huge INTEGER ::= 18446744073709551616
            END"],
            checks: &[NoWarnings, Has("pubconstMAX_COUNTER:Counter64=Counter64(18446744073709551615);"), Has("pubconstHALF_COUNTER:Counter64=Counter64(9223372036854775808);"),
                      Has("pubconstINLINE_MAX:u64=18446744073709551615;"), Has("pubconstBELOW_HALF:Counter64=Counter64(9223372036854775807);"),
                      Has("pubconstLOWEST:Signed64=Signed64(-9223372036854775808);"), Has("pubconstSMALL:u8=200;"), Has("Integer::from(18446744073709551616i128)")] },
        // ---- C07: character-string DEFAULTs made only of digits and time punctuation keep every character
        Case { ob: "C07.cases.string_defaults_that_look_like_time_values_keep_every_character", srcs: &["M DEFINITIONS AUTOMATIC TAGS ::= BEGIN
            S ::= SEQUENCE { a IA5String DEFAULT \"1,5\", b PrintableString DEFAULT \"12,30:45\", c VisibleString DEFAULT \"1,2,3\", d IA5String DEFAULT \"1.5\", e UTF8String DEFAULT \"a,b\" }
            END"],
            checks: &[Has("\"1,5\""), Has("\"12,30:45\""), Has("\"1,2,3\""), Has("\"1.5\""), Has("\"a,b\"")] },
        // ---- C07: a SET OF / SEQUENCE OF DEFAULT keeps every listed element, repeats included
        Case { ob: "C07.cases.collection_defaults_keep_every_listed_element", srcs: &["M DEFINITIONS AUTOMATIC TAGS ::= BEGIN
            S ::= SEQUENCE { retries SET OF INTEGER DEFAULT { 1, 1, 2 }, steps SEQUENCE OF INTEGER DEFAULT { 3, 3, 3 }, flags SET OF BOOLEAN DEFAULT { TRUE, TRUE } }
            END"],
            checks: &[Has("SetOf::from_vec(alloc::vec![Integer::from(1i128),Integer::from(1i128),Integer::from(2i128)])"), Has("alloc::vec![Integer::from(3i128),Integer::from(3i128),Integer::from(3i128)]"),
                      Has("SetOf::from_vec(alloc::vec![true,true])")] },
        // ---- C04 / C06 (fix 24): a chain of equal operators followed by a weaker one is read left to right: `a ^ b ^ c | d` = `((a ^ b) ^ c) | d`
        Case { ob: "C04.cases.chain_of_intersections_followed_by_a_union_keeps_the_union_operand", srcs: &["M DEFINITIONS AUTOMATIC TAGS ::= BEGIN
            A ::= INTEGER (1..10 ^ 2..20 ^ 3..30 | 50)
            B ::= INTEGER (1..10 ^ 2..20 ^ 3..30 ^ 4..40 | 50)
            C ::= INTEGER (50 | 1..10 ^ 2..20 ^ 3..30)
            D ::= INTEGER (1 | 2 | 3..4 ^ 4..9 ^ 4..5 | 60)
            S ::= SEQUENCE { f INTEGER (0..10 ^ 0..10 ^ 0..10 | 1000), o OCTET STRING (SIZE (1..4 ^ 2..4 ^ 3..4 | 9)) }
            END"],
            checks: &[AttrsHave("pubstructA(", "value(\"3..=50\")"), AttrsHave("pubstructB(", "value(\"4..=50\")"), AttrsHave("pubstructC(", "value(\"3..=50\")"), AttrsHave("pubstructD(", "value(\"1..=60\")"),
                      ItemHas("pubstructS{", "#[rasn(value(\"0..=1000\"))]pubf:"), ItemHas("pubstructS{", "#[rasn(size(\"3..=9\"))]pubo:")] },
        Case { ob: "C06.cases.width_covers_the_union_operand_after_a_chain_of_intersections", srcs: &["M DEFINITIONS AUTOMATIC TAGS ::= BEGIN
            S ::= SEQUENCE { f INTEGER (0..10 ^ 0..10 ^ 0..10 | 1000), g INTEGER (0..10 ^ 0..10 | 1000), h INTEGER (0..10 ^ 0..10 ^ 0..10) }
            END"],
            checks: &[ItemHas("pubstructS{", "pubf:u16"), ItemHas("pubstructS{", "pubg:u16"), ItemHas("pubstructS{", "pubh:u8")] },
        // ---- C04 / C06 (fix 25): the type included by `(B)` may be a reference to an INTEGER type: its negative values are permitted
        Case { ob: "C04.cases.inclusion_of_a_referenced_integer_type_keeps_its_negative_values", srcs: &["M DEFINITIONS AUTOMATIC TAGS ::= BEGIN
            C ::= INTEGER
            B ::= C (MIN..10)
            N ::= INTEGER (-5..5)
            max-v INTEGER ::= 5
            S ::= SEQUENCE { a INTEGER (B), n INTEGER (N), z INTEGER (0..max-v) }
            END"],
            checks: &[ItemHas("pubstructS{", "#[rasn(value(\"..=10\"))]puba:Integer"), ItemHas("pubstructS{", "#[rasn(value(\"-5..=5\"))]pubn:i8"), ItemHas("pubstructS{", "#[rasn(value(\"0..=5\"))]pubz:u8")] },
        // ---- observations of the round-13 agents about the unchanged tree, one row each
        Case { ob: "C04.cases.own_named_number_of_an_inline_component_type_is_the_bound", srcs: &["M DEFINITIONS AUTOMATIC TAGS ::= BEGIN
            Alpha ::= INTEGER { top(10) }
            S ::= SEQUENCE { f INTEGER { top(1000) } (0..top), g INTEGER { limit(3) } (0..limit) }
            END"],
            checks: &[ItemHas("pubstructS{", "#[rasn(value(\"0..=1000\"))]pubf:u16"), ItemHas("pubstructS{", "#[rasn(value(\"0..=3\"))]pubg:u8")] },
        Case { ob: "C04.cases.marker_after_a_parenthesised_size_range_is_kept", srcs: &["M DEFINITIONS AUTOMATIC TAGS ::= BEGIN
            A ::= OCTET STRING (SIZE ((1..4), ...))
            B ::= OCTET STRING (SIZE (1..4, ...))
            END"],
            checks: &[AttrsHave("pubstructA(", "size(\"1..=4\",extensible)"), AttrsHave("pubstructB(", "size(\"1..=4\",extensible)")] },
        Case { ob: "C04.cases.additional_elements_after_the_marker_do_not_widen_the_root", srcs: &["M DEFINITIONS AUTOMATIC TAGS ::= BEGIN
            A ::= INTEGER (1..5, ..., 7 | 9)
            B ::= INTEGER (1..5, ...)
            END"],
            checks: &[AttrsHave("pubstructA(", "value(\"1..=5\",extensible)"), AttrsHave("pubstructB(", "value(\"1..=5\",extensible)")] },
        // ---- C04 (fix 29): `<` next to an endpoint excludes the endpoint (X.680 51.4.2); found through side remarks of two round-16 agents
        Case { ob: "C04.cases.excluded_literal_endpoint_is_not_part_of_the_bound", srcs: &["M DEFINITIONS AUTOMATIC TAGS ::= BEGIN
            A ::= INTEGER (0..<256)
            B ::= INTEGER (0<..10)
            S ::= SEQUENCE { f INTEGER (-1<..<256), g OCTET STRING (SIZE (1..<5)) }
            END"],
            checks: &[AttrsHave("pubstructA(", "value(\"0..=255\")"), Has("pubstructA(pubu8)"), AttrsHave("pubstructB(", "value(\"1..=10\")"),
                      ItemHas("pubstructS{", "#[rasn(value(\"0..=255\"))]pubf:u8"), ItemHas("pubstructS{", "#[rasn(size(\"1..=4\"))]pubg:OctetString")] },
        // known finding: the same with a value reference as the excluded endpoint (the IR has no place for the exclusion)
        Case { ob: "C04.cases.excluded_referenced_endpoint_is_not_part_of_the_bound", srcs: &["M DEFINITIONS AUTOMATIC TAGS ::= BEGIN
            max-nb INTEGER ::= 256
            A ::= INTEGER (0..<max-nb)
            END"],
            checks: &[AttrsHave("pubstructA(", "value(\"0..=255\")")] },
        Case { ob: "C05.cases.components_of_after_the_marker_are_extension_additions", srcs: &["M DEFINITIONS AUTOMATIC TAGS ::= BEGIN
            B ::= SEQUENCE { b1 BOOLEAN }
            A ::= SEQUENCE { a1 INTEGER, ..., COMPONENTS OF B }
            END"],
            checks: &[ItemHas("pubstructA{", "#[rasn(extension_addition)]pubb1:bool"), ItemLacks("pubstructA{", "#[rasn(extension_addition)]puba1")] },
        Case { ob: "C03.cases.tagged_open_type_is_explicit", srcs: &["M DEFINITIONS IMPLICIT TAGS ::= BEGIN
            O ::= [0] ANY
            S ::= SEQUENCE { a [1] ANY, b [2] INTEGER }
            END"],
            checks: &[AttrsHave("pubstructO(", "tag(explicit(context,0))"), ItemHas("pubstructS{", "#[rasn(tag(explicit(context,1)))]puba:Any"), ItemHas("pubstructS{", "#[rasn(tag(context,2))]pubb:Integer")] },
        Case { ob: "C03.cases.tag_of_a_parameterized_template_is_applied_to_its_instances", srcs: &["M DEFINITIONS IMPLICIT TAGS ::= BEGIN
            P {T} ::= [APPLICATION 5] SEQUENCE { a T }
            X ::= P {INTEGER}
            END"],
            checks: &[AttrsHave("pubstructX{", "tag(application,5)")] },
        Case { ob: "C02.cases.components_of_keeps_its_position_in_the_component_list", srcs: &["M DEFINITIONS AUTOMATIC TAGS ::= BEGIN
            A ::= SEQUENCE { x INTEGER, y BOOLEAN }
            B ::= SEQUENCE { COMPONENTS OF A, z NULL }
            END"],
            checks: &[ItemHas("pubstructB{", "pubx:Integer,puby:bool,pubz:()")] },
        // ---- C14 / C13: an empty comment `----` ends at its own closing `--`
        Case { ob: "C14.cases.empty_comment_does_not_hide_the_items_after_it", srcs: &["M DEFINITIONS AUTOMATIC TAGS ::= BEGIN
            T ::= ENUMERATED { a, ---- b(5),\n c, ..., d }
            U ::= ENUMERATED {\n a,\n ----b(0),\n c\n}
            V ::= ENUMERATED { a, -- first -- b(5), -- second\n c -- third --, ..., -- ext\n d }
            END"],
            checks: &[ItemHas("pubenumT{", "a=0,"), ItemHas("pubenumT{", "b=5,"), ItemHas("pubenumT{", "c=1,"), ItemHas("pubenumT{", "d=2,"),
                      ItemHas("pubenumU{", "a=1,"), ItemHas("pubenumU{", "b=0,"), ItemHas("pubenumU{", "c=2,"),
                      ItemHas("pubenumV{", "a=0,"), ItemHas("pubenumV{", "b=5,"), ItemHas("pubenumV{", "c=1,"), ItemHas("pubenumV{", "d=2,")] },
        // ---- round 14: the pass that resolves class-field references leaves every other component as it is (a SET OF stays a SET OF)
        Case { ob: "C02.cases.resolving_a_class_field_reference_keeps_the_kind_of_the_sibling_components", srcs: &["M DEFINITIONS AUTOMATIC TAGS ::= BEGIN
            ATTRIBUTE ::= CLASS { &id INTEGER UNIQUE, &Type }
            Item ::= SEQUENCE { x INTEGER }
            Record ::= SEQUENCE { kind ATTRIBUTE.&id, values SET OF INTEGER, items SET OF Item OPTIONAL, history SEQUENCE OF Item }
            Entry ::= CHOICE { kind ATTRIBUTE.&id, bag SET OF Item, list SEQUENCE OF Item }
            END"],
            checks: &[ItemHas("pubstructRecord{", "pubkind:Integer,pubvalues:SetOf<Integer>,pubitems:Option<SetOf<Item>>,pubhistory:SequenceOf<Item>,"),
                      ItemHas("pubenumEntry{", "kind(Integer),bag(SetOf<Item>),list(SequenceOf<Item>),")] },
        // ---- round 14: the literal of a DEFAULT / value governed through two reference hops is typed by the ROOT type (arbitrary precision here)
        Case { ob: "C06.cases.literal_through_a_chain_of_constrained_references_is_typed_by_the_root_type", srcs: &["M DEFINITIONS AUTOMATIC TAGS ::= BEGIN
            Wide ::= INTEGER
            Narrow ::= Wide (0..255)
            Tiny ::= Narrow (0..10)
            S ::= SEQUENCE { a Narrow DEFAULT 7, c Tiny DEFAULT 3 }
            tv Tiny ::= 9
            END"],
            checks: &[Has("fns_a_default()->Narrow{Narrow(Wide(Integer::from(7i128)))}"), Has("fns_c_default()->Tiny{Tiny(Narrow(Wide(Integer::from(3i128))))}"),
                      Has("pubstaticTV:LazyLock<Tiny>=LazyLock::new(||Tiny(Narrow(Wide(Integer::from(9i128)))));")] },
        // ---- round 14: a DEFAULT that mentions a value dummy denotes the ACTUAL parameter, also when the module defines a value of the dummy's name
        Case { ob: "C07.cases.default_that_mentions_a_value_dummy_denotes_the_actual_parameter", srcs: &["M DEFINITIONS AUTOMATIC TAGS ::= BEGIN
            level INTEGER ::= 99
            flag BOOLEAN ::= FALSE
            Templ { INTEGER: level, BOOLEAN: flag } ::= SEQUENCE { int-value INTEGER DEFAULT level, bool-value BOOLEAN DEFAULT flag }
            ImplA ::= Templ { 2, TRUE }
            END"],
            checks: &[Has("fnimpl_a_int_value_default()->Integer{Integer::from(2i128)}"), Has("fnimpl_a_bool_value_default()->bool{true}")] },
    ];

    pub fn contract_pipeline_cases<C: Ctx>(cx: &mut C) {
        let case = &CASES[cx.choose(CASES.len())];
        cx.describe(|| case.srcs.join("\n---\n").split_whitespace().collect::<Vec<_>>().join(" "));
        let mut compiler = crate::Compiler::<crate::generator::rasn::Rasn, _>::new().add_asn_literal(case.srcs[0]);
        for s in &case.srcs[1..] { compiler = compiler.add_asn_literal(*s); }
        let Ok(res) = compiler.compile_to_string() else { cx.ob(case.ob, false); return; };
        let out = squeeze(&res.generated);
        let mut ok = true;
        let mut first_failure: Option<String> = None;
        for chk in case.checks {
            let (pass, what) = match chk {
                Has(f) => (out.contains(f), format!("missing `{f}`")),
                Lacks(f) => (!out.contains(f), format!("unexpected `{f}`")),
                ItemHas(h, f) => (item(&out, h).map_or(false, |i| i.contains(f)), format!("item `{h}` lacks `{f}`: {}", item(&out, h).unwrap_or("<not generated>"))),
                ItemLacks(h, f) => (item(&out, h).map_or(false, |i| !i.contains(f)), format!("item `{h}` has unexpected `{f}`: {}", item(&out, h).unwrap_or("<not generated>"))),
                ItemCount(h, f, n) => (item(&out, h).map_or(false, |i| i.matches(f).count() == *n), format!("item `{h}` should contain `{f}` {n} time(s): {}", item(&out, h).unwrap_or("<not generated>"))),
                AttrsHave(h, f) => (attrs(&out, h).map_or(false, |a| a.contains(f)), format!("attributes of `{h}` lack `{f}`: {}", attrs(&out, h).unwrap_or("<not generated>"))),
                NoWarnings => (res.warnings.is_empty(), format!("warnings: {:?}", res.warnings.iter().map(|w| w.to_string()).collect::<Vec<_>>())),
            };
            if !pass { ok = false; if first_failure.is_none() { first_failure = Some(what); } }
        }
        if let Some(f) = first_failure { cx.describe(|| format!("=> {f}")); }
        cx.ob(case.ob, ok);
    }
}
